"""regenerate seeded/RESULTS.md from seeded/results.json"""
import json, os
root = os.path.dirname(os.path.dirname(os.path.abspath(__file__)))
rs = json.load(open(os.path.join(root, "seeded", "results.json")))
n = len(rs)
cnt = {}
for r in rs:
    k = r["result"].split(" ")[0] if not r["result"].startswith("not ") else " ".join(r["result"].split(" ")[:2])
    cnt[k] = cnt.get(k, 0) + 1
lines = ["# Seeded changes vs. checks", "",
         "Each change was written by an independent sub-agent (property text + scratch worktree only), re-confirmed here (`meta.json`), and run with",
         "`tools/try_mutant_wt.sh <name> <check>` (patch applied in a scratch worktree of /repo HEAD; /repo itself untouched).", "",
         f"Evaluated: {n} changes (two per property from the first round, twelve more from later rounds on C02, C03, C05, C07, C08, C10, C11, C12, C13, C16, C18, C20; later-round changes for C17 and C19 duplicated C17-a and C19-a and are not stored) on the 20 claimed properties; " + "; ".join(f"{k}: {v}" for k, v in sorted(cnt.items())) + ".",
         "'caught' = exit 1 with a reproduced VIOLATION of the targeted property; 'missed' = the check passes; 'not decided' = exit 3 / time-out (neither alarm nor pass).", "",
         "| change | breaks | what it does | check | result | clause that fired / why missed |", "|---|---|---|---|---|---|"]
for r in rs:
    lines.append(f"| {r['change']} | {r['property']} | {r['what']} | {r['check']} | {r['result']} | {r['how']} |")
lines += ["", "Checks strengthened because a change was missed at first: C02 (refit histories), C09 (relative-threshold selectors), C10 (unequal folds), C12 (refit histories), "
          "C16 (collinear n=4 for Gabriel shells >= 3), C03 (4x3 configuration with two retained components for the truncated solvers: C04-b), C05 (refit history with center switched off: C05-a), "
          "C18 (refit with a user-supplied estimator: C18-b), C17 (refit cache history: C17-b), C13 (train/test inside the family with remainder: C13-b; LRE==GRE with remainder: C13-c), C05 (homogeneous polynomial kernel: C05-c), C07 (positive tolerance: C07-c), C10 (folds of different rank: C10-c), C18 (closed-form 2x2 Procrustes + ridge estimator with rotated coupling: C18-c), C06 (scale-relative replay tolerance: C06-a), linalg (float-faithful inv on singular input: C03-b, C14-a), runner (API exceptions as candidates: C14-b; witness search after a solver candidate: C01-a, C20-b).", ""]
open(os.path.join(root, "seeded", "RESULTS.md"), "w").write("\n".join(lines))
print(cnt)
