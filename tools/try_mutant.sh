#!/bin/bash
# usage: try_mutant.sh <patch.diff> <check id> [more check ids] -- applies the patch to /repo, runs the quick checks, reverts
patch=$1; shift
[ -z "$(git -C /repo status --porcelain)" ] || { echo "/repo not clean"; exit 9; }
git -C /repo apply "$patch" || git -C /repo apply -3 "$patch" || { echo APPLY-FAILED; exit 8; }
for id in "$@"; do
  echo "=== $id on $(basename $(dirname $patch))"
  timeout ${TRY_TIMEOUT:-1500} /verif/check $id --tier ${TRY_TIER:-quick} 2>&1 | grep -E "^VIOLATION|^KNOWN|^\[C|HARNESS|INCONCL|UNCONF|MISMATCH" | cut -c1-400 | head -12
  echo "exit=${PIPESTATUS[0]}"
done
git -C /repo checkout -- . ; git -C /repo reset -q; git -C /repo status --porcelain | head -3
