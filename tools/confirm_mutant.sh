#!/bin/bash
# usage: confirm_mutant.sh C01 a   -- confirms a sub-agent mutant in a scratch worktree of /repo HEAD:
# demo passes pristine, patch applies, demo fails with it, existing suite still passes. Writes /verif/seeded/<id>-<x>/.
pid=$1; x=$2
src=/tmp/mut/$pid/$x
wt=$(mktemp -d /tmp/cm_${pid}_${x}_XXXX)
out=/verif/seeded/${pid}-${x}
export OMP_NUM_THREADS=1 OPENBLAS_NUM_THREADS=1 MKL_NUM_THREADS=1
rmdir $wt; git -C /repo worktree add -q --detach $wt HEAD || exit 2
cleanup() { git -C /repo worktree remove --force $wt 2>/dev/null; rm -rf $wt; }
trap cleanup EXIT
cd $wt
PYTHONPATH=$wt/src timeout 900 /venv/bin/python $src/demo.py > /tmp/cm_${pid}_${x}.pristine.log 2>&1; r0=$?
git apply $src/patch.diff 2>/tmp/cm_${pid}_${x}.apply.log || git apply -3 $src/patch.diff 2>>/tmp/cm_${pid}_${x}.apply.log || { echo "$pid-$x APPLY-FAILED"; exit 3; }
PYTHONPATH=$wt/src timeout 900 /venv/bin/python $src/demo.py > /tmp/cm_${pid}_${x}.mutant.log 2>&1; r1=$?
PYTHONPATH=$wt/src timeout 3000 /venv/bin/python -m pytest -q -p no:cacheprovider tests --deselect tests/test_sample_simple_cur.py::TestCUR::test_non_it --deselect tests/test_sample_simple_cur.py::TestCUR::test_restart --deselect tests/test_sample_simple_cur.py::TestCUR::test_sample_transform > /tmp/cm_${pid}_${x}.tests.log 2>&1; rt=$?
summary=$(tail -1 /tmp/cm_${pid}_${x}.tests.log)
git diff > /tmp/cm_${pid}_${x}.diff
echo "$pid-$x demo_pristine=$r0 demo_mutant=$r1 tests_rc=$rt :: $summary"
if [ $r0 -eq 0 ] && [ $r1 -ne 0 ] && [ $rt -eq 0 ]; then
  mkdir -p $out
  cp /tmp/cm_${pid}_${x}.diff $out/patch.diff
  cp $src/demo.py $out/demo.py
  cp $src/notes.md $out/notes.md 2>/dev/null
  python3 - "$pid" "$x" "$summary" "$(tail -3 /tmp/cm_${pid}_${x}.mutant.log | tr '\n' ' ' | cut -c1-400)" <<'PY'
import json, sys, subprocess
pid, x, summary, demo = sys.argv[1:5]
head = subprocess.run(["git","-C","/repo","rev-parse","--short","HEAD"],capture_output=True,text=True).stdout.strip()
notes = open(f"/tmp/mut/{pid}/{x}/notes.md").read() if True else ""
json.dump({"property": pid, "variant": x, "origin": "independent sub-agent given only the property text and a scratch worktree",
           "needs_to_manifest": notes[:1500],
           "confirmed": {"base_commit": head, "demo_on_pristine": "exit 0 (PASS)", "demo_with_patch": "exit 1 (FAIL): " + demo,
                         "existing_suite_with_patch": summary,
                         "commands": ["git worktree add <scratch> HEAD", "PYTHONPATH=<scratch>/src /venv/bin/python demo.py", "git apply patch.diff", "PYTHONPATH=<scratch>/src /venv/bin/python demo.py", "PYTHONPATH=<scratch>/src /venv/bin/python -m pytest -q tests (3 network tests deselected)"]}},
          open(f"/verif/seeded/{pid}-{x}/meta.json","w"), indent=1)
PY
fi
