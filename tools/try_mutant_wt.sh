#!/bin/bash
# usage: try_mutant_wt.sh <seeded dir name e.g. C01-a> <check ids...>
# runs the quick checks against a scratch worktree of /repo HEAD with the seeded patch applied (never touches /repo);
# evidence/replays written during these trials are discarded by running from a scratch copy of /verif.
name=$1; shift
wt=$(mktemp -d /tmp/tm_${name}_XXXX); rmdir $wt
git -C /repo worktree add -q --detach $wt HEAD || exit 2
vcopy=$(mktemp -d /tmp/tmv_${name}_XXXX)
trap "git -C /repo worktree remove --force $wt 2>/dev/null; rm -rf $wt $vcopy" EXIT
git -C $wt apply /verif/seeded/$name/patch.diff || { echo "$name APPLY-FAILED"; exit 3; }
rsync -a --exclude .git --exclude .venv --exclude replays /verif/ $vcopy/
ln -s /verif/.venv $vcopy/.venv
for id in "$@"; do
  lid=$(echo $id | tr 'A-Z' 'a-z')
  out=$(cd $vcopy && SYMX_REPO_SRC=$wt/src PYTHONPATH=$wt/src:$vcopy PYTHONHASHSEED=0 OMP_NUM_THREADS=1 timeout ${TRY_TIMEOUT:-2400} $vcopy/.venv/bin/python $vcopy/checks/$lid.py --tier ${TRY_TIER:-quick} --jobs ${TRY_JOBS:-8} 2>&1); rc=$?
  nv=$(echo "$out" | grep -c "^VIOLATION")
  echo "$name $id exit=$rc violations=$nv :: $(echo "$out" | grep '^\[C' | tail -1 | cut -c1-260)"
  echo "$out" | grep -E "^  signature" | head -3 | cut -c1-300
done
