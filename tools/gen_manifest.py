#!/usr/bin/env python3
"""Regenerates MANIFEST.json from the table below (kept in one place so that the
not_applicable list and the claimed checks never drift apart)."""
import json, os
V = os.path.dirname(os.path.dirname(os.path.abspath(__file__)))
props = [json.loads(l) for l in open(os.path.join(V, "properties.jsonl"))]
from manifest_table import CHECKS, NOT_APPLICABLE  # noqa

checks = []
for pid, d in sorted(CHECKS.items()):
    checks.append({
        "property_id": pid,
        "quick_cmd": f"./check {pid} --tier quick",
        "thorough_cmd": f"./check {pid} --tier thorough",
        "evidence_file": f"/verif/evidence/{pid}.json",
        "replay_cmd_template": f"./check {pid} --replay {{path}}",
        "engine": "symx",
        "level_claimed": {"category": "model_checking", "text": d["text"], "design_ref": d["design_ref"]},
        "level_note": d["note"],
        "technique": d["technique"],
    })
na = []
for p in props:
    if p["id"] not in CHECKS:
        na.append({"property_id": p["id"], "reason": NOT_APPLICABLE.get(p["id"], "check not built yet in this round; see DESIGN.md section 2 for the planned encoding")})
m = {
    "version": 1,
    "setup_cmd": "./setup.sh",
    "hooks": {"guard": "SKMATTER_VERIF", "enable": "none needed: all instrumentation is harness-side run-time patching of module globals; no source hooks exist",
              "baseline_off_cmd": "cd /repo && /venv/bin/python -m pytest -ra -q -p no:cacheprovider --timeout=900 --continue-on-collection-errors",
              "source_commits": [], "add_only": True},
    "engines": [{"name": "symx", "path": "/verif/symx", "serves_properties": sorted(CHECKS),
                 "kind_free_text": "symbolic execution of the real skmatter Python code on numpy object arrays of exact symbolic reals (canonical rational functions + sqrt/ite/int/UF atoms); all paths explored by re-execution; obligations discharged by normal-form zero test, monomial linear abstraction (z3 LRA), z3 nlsat and cvc5 NRA; every counterexample replayed on the unpatched float64 code"}],
    "checks": checks,
    "not_applicable": na,
    "notes": "Exit codes: 0 held (possibly KNOWN-FINDING lines), 1 unlisted reproduced violation, 3 inconclusive/harness error. known_findings.json lists recorded genuine defects.",
}
json.dump(m, open(os.path.join(V, "MANIFEST.json"), "w"), indent=1)
print("checks:", [c["property_id"] for c in checks], "n/a:", len(na))
