TECH = "bounded symbolic execution of the real Python code (exact symbolic reals in numpy object arrays) with SMT-discharged obligations (z3 LRA abstraction / z3 nlsat / cvc5 NRA) and replay of every counterexample on the float64 code"
CHECKS = {
 "C02": {
  "text": "All paths of the real FPS/PCov-FPS code are executed on fully symbolic small matrices (every 4x2.. matrix at once, including exact ties, duplicates and rank deficiency); for each path the solver shows that the negation of each clause (initial picks, farthest pick w.r.t. an independently written distance oracle, reported distances = true minima, monotone, final table, transpose equivalence) is unsatisfiable. Bounded model checking: shapes and selection counts are bounded and stated in the evidence.",
  "design_ref": "DESIGN.md 2/C02",
  "note": "exact real arithmetic instead of IEEE doubles (rounding-only effects outside); sklearn validators stubbed by their aliasing contract; PCov-FPS feature direction only on the factor family (frames from a finite rational library)",
  "technique": TECH,
 },
}
CHECKS["C01"] = {
  "text": "All paths of the real GreedySelector.fit (FPS, PCov-FPS, CUR, PCov-CUR; both directions where reachable; n_to_select None/int/float; symbolic score threshold; int/list initialisation; cold and one warm continuation) are executed on fully symbolic small matrices; on every path each derived view (selected_idx_, n_selected_, X_selected_, y_selected_, support mask, get_support variants, transform) is compared with the input sliced at the selected indices, and distinctness / range / size are decided. Bounded model checking over shapes <=5 candidates.",
  "design_ref": "DESIGN.md 2/C01",
  "note": "exact reals; sklearn validators stubbed; CUR family: svds/eigsh/eigh are uninterpreted functions with unit-norm / zero-line contract (validated against the real routines on every replay), obligations assume decomposed matrices nonzero and positive pick scores; two recorded genuine findings (exhausted candidates re-selected; threshold-stop truncation pinned by an existing test)",
  "technique": TECH,
}
CHECKS["C11"] = {
  "text": "StandardFlexibleScaler.fit/transform/inverse_transform are executed on fully symbolic matrices for all 8 flag combinations, unweighted and with a symbolic non-negative weight vector; the solver decides on every path: weighted mean zero, weighted (per-column / total) variance one, inverse round trip on new symbolic data, StandardScaler formula, integer weights == repeated rows, shift and rescaling invariance, and that a fit is rejected exactly when the independently computed variance is below atol+|mean|*rtol (division by a zero scale is an event that must be unreachable). Bounded: n<=4, m<=3.",
  "design_ref": "DESIGN.md 2/C11",
  "note": "exact reals; sklearn validators stubbed by aliasing contract; atol>0; symbolic weights parametrised with fixed total (1 or 3)",
  "technique": TECH,
}
CHECKS["C12"] = {
  "text": "KernelNormalizer and SparseKernelCenterer (fit / transform / fit_transform, sklearn KernelCenterer.fit underneath) are executed on kernels built in the harness from explicit symbolic feature matrices; on every path the transformed train/test kernels are compared (normal-form zero test, solver otherwise) with the Gram matrices of features centred by the weighted training mean and divided by the common scale; trace n, vanishing weighted column means, centred Nystrom trace n, flag semantics, fit_transform and two-step refit histories are decided. Bounded: n<=4, d<=2, active set <=2.",
  "design_ref": "DESIGN.md 2/C12",
  "note": "exact reals; pinv(Kmm) by closed form for invertible Kmm; zero trace / singular Kmm end the path",
  "technique": TECH,
}
CHECKS["C20"] = {
  "text": "local_prediction_rigidity and componentwise_prediction_rigidity are executed on symbolic lists of structures; every returned value is compared by cross-multiplied polynomial identity with the independently written closed form 1/(x (B + alpha s^2 I)^-1 x^T) (block-restricted / structure mean for LCPR / CPR), plus splitting per structure, rank_diff, invariance under a common symbolic rescaling, monotonicity in alpha (two symbols), LCPR(single component)==LPR, CPR(one environment)==LCPR, positivity (d=1). Bounded: d<=2 (3 thorough), <=3 structures.",
  "design_ref": "DESIGN.md 2/C20",
  "note": "exact reals; pinv/matrix_rank by closed forms with determinants named as atoms (abstraction by naming, unfolded for equalities); strict positivity decided only for d=1",
  "technique": TECH,
}
CHECKS["C15"] = {
  "text": "periodic_pairwise_euclidean_distances and pairwise_mahalanobis_distances are executed on symbolic points inside a bounded box; np.round becomes a finite integer fork, after which every squared distance is an explicit polynomial, and the solver decides on every path: distance <= every periodic image (incl. free space) and attained by one (minimum-image definition), symmetry, zero diagonal / images, <= half cell diagonal, integer image-shift invariance, squared = square, 1-D triangle inequality, no-cell == Euclidean formula, identity precision == periodic Euclidean, L L^T precision == Euclidean on whitened points, Mahalanobis with cell == quadratic form of the minimum-image displacement, stack independence, dimension mismatch rejected. Bounded: dim<=2 (3 thorough), coordinates within +-1 (2) cells.",
  "design_ref": "DESIGN.md 2/C15",
  "note": "exact reals; coordinates bounded so the image index ranges over a finite set; sklearn check_pairwise_arrays/_euclidean_distances stubbed by contract/formula; n-D triangle inequality not queried directly",
  "technique": TECH,
}
CHECKS["C16"] = {
  "text": "QuickShift.fit/_qs_next/_gs_next/_get_gabriel_graph are executed with a fully symbolic squared-distance matrix (through the public metric parameter), symbolic cut-offs/scale and every strict weight ordering; on each path the labels are compared with a reference model written as formulas (nearest strictly heavier allowed neighbour, tie-accepting): self-labelled centres, centres without heavier allowed neighbour, every point follows a valid next, heaviest point is a centre, Gabriel graph == brute-force definition, and the partition is recomputed for every permutation of the input order (n=3: all 6) and for periodic images. Bounded: n=3 (+ collinear n=4 for Gabriel shells; n=4 in thorough).",
  "design_ref": "DESIGN.md 2/C16",
  "note": "exact reals; distance ties make the nearest neighbour ambiguous: the order dependence they cause is a recorded genuine finding (signature distance-tie); any order dependence without a tie is a violation",
  "technique": TECH,
}
CHECKS["C06"] = {
  "text": "VoronoiFPS (_init_greedy_search incl. the timing calibration under stubbed clocks, _get_active, _update_post_selection, _continue_greedy_search) is executed on fully symbolic points with a symbolic switching fraction covering (0,1]; on every path: each pick is a farthest candidate w.r.t. an independent distance oracle, the distance table after every step equals the true minimum distances (so no pruned point could have lowered its distance), the selection equals plain FPS run on the same path or differs only from a proven tie, the requested count is honoured for int / fraction / None, cold and warm-started. The triangle-inequality fact behind the pruning rule is proved once by z3 for generic vectors and instantiated. Bounded: 4x2 (thorough 5x2, 4x3).",
  "design_ref": "DESIGN.md 2/C06",
  "note": "exact reals; calibration clock replaced by three deterministic schedules, its possible results covered by the symbolic fraction; feasibility of paths over-approximated by the linear abstraction only (obligations are still decided exactly)",
  "technique": TECH,
}
CHECKS["C08"] = {
  "text": "For FPS, PCov-FPS, VoronoiFPS and the CUR family (recompute_every 0 and 1) a cold fit with n selections and EVERY increasing schedule of warm-started fits reaching n (exhaustive for n<=3, 4 in thorough), every shorter cold fit (prefix property) and FPS initialised with the selected prefix are executed in the same symbolic path on the same symbolic data; selected_idx_, n_selected_, X_selected_, y_selected_, hausdorff_/hausdorff_at_select_, pi_, X_current_, y_current_ are compared as exact terms (normal-form zero test) on every path; warm_start on an unfitted selector must raise.",
  "design_ref": "DESIGN.md 2/C08",
  "note": "exact reals (first-index argmax is deterministic, so equality must be exact on every path, ties included); CUR family scores are uninterpreted functions with congruence; one repaired defect (recompute_every=0 warm start)",
  "technique": TECH,
}
CHECKS["C09"] = {
  "text": "Every path of the public entry points within reach (all selectors incl. VoronoiFPS, KernelPCovR.fit on a caller-supplied precomputed kernel with centring, StandardFlexibleScaler, KernelNormalizer, SparseKernelCenterer, QuickShift, SparseKDE constructor, pairwise distances, orthogonalizers with copy=True, prediction rigidities) is executed on symbolic object arrays, which make aliasing observable exactly as in numpy: after each call every caller-supplied array must hold the identical terms, get_params() must be unchanged by fit, fit returns self, fit_transform equals fit+transform, and two-step histories (other data, with-y then without-y, larger then smaller, repeated call) must leave the attribute set and values of a fresh estimator.",
  "design_ref": "DESIGN.md 2/C09",
  "note": "validators stubbed with sklearn's aliasing contract for float64 C-order writeable input (worst case); PCovR / KernelPCovR (except the precomputed-kernel configuration) / Ridge2FoldCV / OrthogonalRegression / DirectionalConvexHull / reconstruction measures and SparseKDE.fit are outside this check; three defects repaired, one recorded (VoronoiFPS calibrated full_fraction, pinned by a test)",
  "technique": TECH,
}
CHECKS["C14"] = {
  "text": "The real PCovR.fit/_fit_feature_space/_fit_sample_space/_decompose_full/transform/inverse_transform/predict/score (and sklearn's _BasePCA.transform underneath) are executed on the factor family X = U diag(s) V^T, Y = U diag(g) with symbolic spectra, targets, mixing in (0,1], ridge strength and new data; on every path (eigenvalue orderings and tolerance branches forked): transform == X pxt_, predict(X) == predict(T=transform(X)), T^T T == diag(retained eigenvalues), transform(inverse_transform(T)) == T, nested components and non-increasing losses in k, score == -(lX+lY), 1-D y shapes. Bounded: 4x2 (4x3 thorough), frames from a finite rational library.",
  "design_ref": "DESIGN.md 2/C14, 1.4",
  "note": "exact reals; decompositions are verified-frame stubs (exact, one legal LAPACK output); claim is 'for all spectra over frames in the library'; retained eigenvalues assumed > tol; one repaired defect (precomputed regressor with 1-D y in sample space)",
  "technique": TECH,
}
CHECKS["C03"] = {
  "text": "On the factor family (X = U diag(s) V^T, Y = U diag(g) + remainder; spectra, targets, mixing in [0,1], ridge strength symbolic) the real PCovR is fitted in feature space and in sample space, and with svd_solver full / arpack / randomized, inside the same symbolic path; latent coordinates (up to the sign of each component), predictions, reconstructions and singular values are compared as exact terms; the modified covariance and Gram matrix are shown to share their non-zero spectrum, singular_values_^2 and explained_variance_ are tied to the eigenvalues in decreasing order; precomputed W given == omitted.",
  "design_ref": "DESIGN.md 2/C03, 1.4",
  "note": "exact reals; all three SVD routines are the same verified-frame stub (svds in ARPACK's ascending order), so the glue (reversal, truncation, projector formulas) is what is decided, not ARPACK; simple spectrum and singular values clear of rcond assumed; frames from the finite library",
  "technique": TECH,
}
CHECKS["C04"] = {
  "text": "On the factor family the real PCovR is fitted with mixing = 1 (coordinates and reconstruction compared with PCA written from the factors), mixing = 0 (predictions compared with the least-squares projection), symbolic mixing (the mixed objective of PCovR's own latent subspace, built from its transform output, is shown <= the objective of every k-subset of frame directions - which contains PCA's and the regression's subspaces - and of a rotation of its own subspace towards every other direction by a symbolic angle), and two symbolic mixings a < b (training reconstruction loss non-increasing, regression loss non-decreasing).",
  "design_ref": "DESIGN.md 2/C04, 1.4",
  "note": "exact reals; verified-frame decompositions; optimality is decided against the stated competitor families only (not the whole Grassmannian); frames from the finite library",
  "technique": TECH,
}
CHECKS["C05"] = {
  "text": "The real KernelPCovR (fit/_fit/_get_kernel/transform/predict/score, KernelNormalizer underneath) is executed with training features on the factor family and fully symbolic held-out sets of 1, 2, 4 (= n) and 5 (> n) rows: every size is accepted, transform/predict equal the kernel block times the fitted projectors, score equals minus the independently written documented kernel-reconstruction loss plus relative regression loss (projector entries named as atoms); linear kernel == sample-space PCovR with the equivalent ridge (projections up to sign, predictions); named kernel == the same kernel precomputed; center=True == explicit KernelNormalizer on train and test kernels; fitted vs unfitted kernel ridge and the documented dual coefficients.",
  "design_ref": "DESIGN.md 2/C05",
  "note": "exact reals; kernels linear / polynomial by definition (rbf, sigmoid, cosine outside: transcendental); kernel ridge by closed form; verified-frame decompositions; one repaired defect (K_VV vs K_NN in score); held-out scoring with center=True is outside (K_VV cannot be centred by the fitted normaliser)",
  "technique": TECH,
}
CHECKS["C10"] = {
  "text": "Ridge2FoldCV.fit/_2fold_cv/predict are executed on folds built from factors (X_i = Q_i diag(s_i) V^T, common right frame so that the fold SVDs and the full-data SVD are exact), with symbolic spectra, targets and alpha grid; cv_values_ are compared with explicit per-fold Tikhonov / cut-off least-squares solutions scored on the other fold with the metric formulas under sklearn's scorer calling convention, alpha_ must have the best value, coef_ must equal the regularised full-data solution with directions below the numerical rank excluded (division by a zero singular value is an event that must be unreachable), predict == X coef_^T.",
  "design_ref": "DESIGN.md 2/C10",
  "note": "exact reals; verified-frame SVD; scorers stubbed by formula and calling convention; scores named as atoms and unfolded for equality; two repaired defects (scorer argument order, rank count of the final solve)",
  "technique": TECH,
}
CHECKS["C18"] = {
  "text": "OrthogonalRegression.fit/predict are executed on the factor family (X = U diag(s) Vx^T, y = U diag(t) Vy^T + remainder) for features <, =, > targets and both modes: coef_ orthogonal (padded) / partial isometry (projector), predict pads consistently, |prediction| <= |input| through a certificate identity |x|^2 - |xA|^2 == |x(I - AA^T)|^2 decided by normal form, y = XQ recovers Q with zero residual, and the training residual is <= that of every library frame of the padded size and of a rotation of the fitted map by a symbolic angle.",
  "design_ref": "DESIGN.md 2/C18",
  "note": "exact reals; svd by verified frames (null vectors completed by Gram-Schmidt), orthogonal_procrustes by its definition, LinearRegression by normal equations; optimality only against the stated competitor families",
  "technique": TECH,
}
CHECKS["C07"] = {
  "text": "CUR (both directions) and PCov-CUR (sample direction) are executed on symbolic X, y with svds/eigsh/eigh as uninterpreted functions whose every call is logged: the matrix handed to the routine at each refresh equals the independently computed projection residual (resp. the modified Gram matrix of residual X and residual y), the refresh schedule matches recompute_every in {0,1,2,3}, the score vector equals the sum of squares over the top-k returned vectors along the right axis with exactly the selected entries zeroed, every pick is an arg-max among unselected items, X_current_ equals the projection residual and is orthogonal to every selected item, y_current_ equals y minus the fit on the selected samples.",
  "design_ref": "DESIGN.md 2/C07, 1.4",
  "note": "what svds/eigsh/eigh return is trusted by contract (unit norm, zero line => zero entry, ascending eigenvalues), validated against the real routines on each replay; sample/feature duality and PCov-CUR(mixing=1)==CUR only as equality of arguments; PCov-CUR feature direction outside",
  "technique": TECH,
}
CHECKS["C13"] = {
  "text": "The eight public reconstruction-measure functions (GRE, GRD, LRE; pointwise and global) are executed with the real StandardFlexibleScaler, a user-supplied closed-form least-squares estimator and, for GRD, the real OrthogonalRegression, on a training block from the factor family plus fully symbolic test rows and explicit index choices: GRE(X, XA) == 0, GRD(X, XQ) == 0, pointwise >= 0, global == RMS of pointwise for the same index choice (all three measures), training-set GRE <= 1 through a certificate of identities used as lemmas, invariance under source rotations (GRE, LRE) and under rescaling / shifts of either space, LRE(all neighbours) == pointwise GRE, and definedness for X narrower / equal / wider than Y.",
  "design_ref": "DESIGN.md 2/C13",
  "note": "exact reals; estimator is the user-supplied least-squares estimator (the default Ridge2FoldCV inside the measures is outside); training block on the factor family; one repaired defect (GRD with X wider than Y)",
  "technique": TECH,
}
CHECKS["C19"] = {
  "text": "DirectionalConvexHull.fit/score_samples/score_feature_matrix/_directional_convex_hull_distance and _linear_interpolator are executed on symbolic samples in general position for one hull dimension, with scipy's ConvexHull replaced by its definition (facets = pairs with every other point strictly on one side, outward unit normals; orientation signs forked): a sample is selected iff it lies strictly below every bracketing chord of other samples, no training sample is below the hull, selected samples have zero distance and zero high-dimensional residual, unselected ones positive distance, the selection is unchanged by a symbolic positive affine map of y (distances scale) and by adding a sample above the hull, and for a symbolic query inside the footprint the distance equals the vertical offset on or above the surface and is negative below.",
  "design_ref": "DESIGN.md 2/C19",
  "note": "exact reals; planar hull only (2 and 3 hull dimensions need 3-D/4-D qhull and Delaunay interpolation: outside); general position assumed; hull stub validated against qhull on every replay; one repaired defect (zero distance for a point below the hull on an extended facet)",
  "technique": TECH,
}
CHECKS["C17"] = {
  "text": "PARTIAL (the decidable fragment of C17). The real _NearestGridAssigner (free space and a periodic 1-D cell) is executed on symbolic descriptors, weights and grid points: every descriptor goes to a nearest grid point, member lists partition the descriptors, grid weights are the sums of the assigned (normalised) weights and total one. SparseKDE.score_samples/_computes_kernel_density_estimation is executed on a fitted state (assignment from the real assigner; symbolic symmetric inverse bandwidths and log-normalisations; log, sin, cos, arctan2 uninterpreted, logsumexp a formal multiset): the multiset of Gaussian terms equals the documented mixture (grid-level term beyond the Mahalanobis cut-off, descriptor-level terms of that cell otherwise, only a descriptor identical to the query excluded, empty cells skipped, normalised by the total weight), for free queries, a query equal to a descriptor and a query sharing one coordinate with a descriptor. A refit history fit -> cache access -> fit on another grid -> score_samples (bandwidth estimation replaced by arbitrary symbolic positive bandwidths) must give the mixture of the CURRENT fit. _covariance (free space) is symmetric, translation and permutation invariant and a non-negative quadratic form; the periodic variant is compared under a whole-cell shift.",
  "design_ref": "DESIGN.md 2/C17",
  "note": "exact reals with uninterpreted transcendental functions: only the STRUCTURE of the mixture is decided, not its numeric value; NOT covered (no installed solver reasons about exp/log/eigenvalues/non-integer powers): bandwidth estimation in fit (localisation tuners, effdim, oas shrinkage, Silverman factor, positive definiteness), invariances of the final log-density; one repaired defect (IndexError for empty Voronoi cells), one open known finding (periodic covariance not invariant under whole-cell shifts; the expected numbers of an existing test pin the formula)",
  "technique": TECH,
}
NOT_APPLICABLE = {
}
