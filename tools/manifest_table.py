TECH = "bounded symbolic execution of the real Python code (exact symbolic reals in numpy object arrays) with SMT-discharged obligations (z3 LRA abstraction / z3 nlsat / cvc5 NRA) and replay of every counterexample on the float64 code"
CHECKS = {
 "C02": {
  "text": "All paths of the real FPS/PCov-FPS code are executed on fully symbolic small matrices (every 4x2.. matrix at once, including exact ties, duplicates and rank deficiency); for each path the solver shows that the negation of each clause (initial picks, farthest pick w.r.t. an independently written distance oracle, reported distances = true minima, monotone, final table, transpose equivalence) is unsatisfiable. Bounded model checking: shapes and selection counts are bounded and stated in the evidence.",
  "design_ref": "DESIGN.md 2/C02",
  "note": "exact real arithmetic instead of IEEE doubles (rounding-only effects outside); sklearn validators stubbed by their aliasing contract; PCov-FPS feature direction only on the factor family (frames from a finite rational library)",
  "technique": TECH,
 },
}
NOT_APPLICABLE = {}
