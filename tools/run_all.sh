#!/bin/bash
# runs every claimed check of MANIFEST.json in the given tier and prints one summary line each
tier=${1:-quick}
cd /verif
for id in $(python3 -c "import json; print(' '.join(c['property_id'] for c in json.load(open('MANIFEST.json'))['checks']))"); do
  s=$(date +%s)
  out=$(timeout ${RUN_TIMEOUT:-3000} ./check $id --tier $tier 2>&1); rc=$?
  echo "$id rc=$rc t=$(( $(date +%s)-s ))s :: $(echo "$out" | grep '^\[C' | tail -1 | cut -c1-230)"
  echo "$out" | grep -E "^VIOLATION|^HARNESS|^INCONC|^UNCONF|^VALIDATION-MISMATCH" | head -4 | cut -c1-300
done
