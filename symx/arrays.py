"""SymArray (ndarray subclass with dtype=object holding SReal / exact numbers) and the
numpy shim module handed to analysed skmatter modules in place of `np`."""
from __future__ import annotations

import types
from fractions import Fraction

import numpy as _np

from . import core
from .core import SReal, Formula, Unsupported, ctx, f_and, f_or

_INF = float("inf")


class SymArray(_np.ndarray):
    """object-dtype array of exact scalars; `astype(float)` copies instead of concretising"""

    def __array_wrap__(self, arr, context=None, return_scalar=False):
        if arr.ndim == 0:
            return arr[()]
        return arr.view(SymArray) if arr.dtype == object else arr

    def astype(self, dtype, *a, **k):
        try:
            dt = _np.dtype(dtype)
        except TypeError:
            dt = None
        if dt is not None and dt.kind in "fc":
            return self.copy()
        if dt is not None and dt.kind == "O":
            return _np.ndarray.astype(self, dtype, *a, **k).view(SymArray)
        return _np.ndarray.astype(self, dtype, *a, **k)

    # comparisons give real bool arrays (numpy semantics); symbolic elements fork per element
    def _cmp(self, o, op):
        import operator

        f = getattr(operator, op)
        if isinstance(o, _np.ndarray):
            a, b = _np.broadcast_arrays(_np.asarray(self), o)
            out = _np.empty(a.shape, dtype=bool)
            for idx in _np.ndindex(*a.shape):
                out[idx] = _tobool(f(a[idx], b[idx]))
            return out
        out = _np.empty(self.shape, dtype=bool)
        a = _np.asarray(self)
        for idx in _np.ndindex(*a.shape):
            out[idx] = _tobool(f(a[idx], o))
        return out

    def __lt__(self, o):
        return self._cmp(o, "lt")

    def __le__(self, o):
        return self._cmp(o, "le")

    def __gt__(self, o):
        return self._cmp(o, "gt")

    def __ge__(self, o):
        return self._cmp(o, "ge")

    def __eq__(self, o):
        return self._cmp(o, "eq")

    def __ne__(self, o):
        return self._cmp(o, "ne")

    __hash__ = None

    # reductions that need comparisons
    def max(self, axis=None, **k):
        return amax(self, axis=axis)

    def min(self, axis=None, **k):
        return amin(self, axis=axis)

    def argmax(self, axis=None, **k):
        return argmax(self, axis=axis)

    def argmin(self, axis=None, **k):
        return argmin(self, axis=axis)


def is_sym(a):
    return isinstance(a, _np.ndarray) and a.dtype == object


def sym(a):
    """view/convert as SymArray (object dtype) with exact entries"""
    if isinstance(a, SymArray):
        return a
    a = _np.asarray(a)
    if a.dtype == object:
        return a.view(SymArray)
    if a.dtype.kind in "fiub":
        out = _np.empty(a.shape, dtype=object)
        of = out.reshape(-1)
        af = a.reshape(-1)
        for i in range(af.shape[0]):
            v = af[i].item()
            of[i] = v if (isinstance(v, float) and v in (_INF, -_INF)) else ctx().const(v)
        return out.view(SymArray)
    raise Unsupported(f"cannot make symbolic array from dtype {a.dtype}")


def symbols(name, shape, nonneg=False, positive=False):
    """fresh input symbols name[i,j]"""
    if isinstance(shape, int):
        shape = (shape,)
    out = _np.empty(shape, dtype=object)
    for idx in _np.ndindex(*shape):
        out[idx] = ctx().sym(name + "".join(f"_{i}" for i in idx), nonneg=nonneg, positive=positive)
    return out.view(SymArray)


def exact(vals):
    """array of exact constants (Fractions/ints/strings) as SymArray"""
    a = _np.asarray(vals, dtype=object)
    out = _np.empty(a.shape, dtype=object)
    for idx in _np.ndindex(*a.shape):
        v = a[idx]
        out[idx] = ctx().const(Fraction(v) if isinstance(v, str) else v)
    return out.view(SymArray)


def _any_sym(*arrs):
    for a in arrs:
        if isinstance(a, SReal):
            return True
        if isinstance(a, _np.ndarray) and a.dtype == object:
            return True
        if isinstance(a, (list, tuple)) and any(isinstance(x, SReal) for x in a):
            return True
    return False


def _elem(x):
    return x


# ------------------------------------------------------------------ elementwise


def _map2(fn, a, b, out=None):
    a_, b_ = _np.broadcast_arrays(_np.asarray(a, dtype=object) if not isinstance(a, _np.ndarray) else a,
                                  _np.asarray(b, dtype=object) if not isinstance(b, _np.ndarray) else b)
    res = _np.empty(a_.shape, dtype=object)
    for idx in _np.ndindex(*a_.shape):
        res[idx] = fn(a_[idx], b_[idx])
    if out is not None:
        out[...] = res
        return out
    if res.shape == ():
        return res[()]
    return res.view(SymArray)


def _map1(fn, a):
    if isinstance(a, SReal):
        return fn(a)
    a = _np.asarray(a)
    res = _np.empty(a.shape, dtype=object)
    for idx in _np.ndindex(*a.shape):
        res[idx] = fn(a[idx])
    if res.shape == ():
        return res[()]
    return res.view(SymArray)


def _smin2(x, y):
    if not isinstance(x, SReal) and not isinstance(y, SReal):
        return x if x <= y else y
    return ctx().smin(x, y)


def _smax2(x, y):
    if not isinstance(x, SReal) and not isinstance(y, SReal):
        return x if x >= y else y
    return ctx().smax(x, y)


def minimum(a, b, out=None, **k):
    if not _any_sym(a, b):
        return _np.minimum(a, b, out=out, **k) if out is not None else _np.minimum(a, b, **k)
    return _map2(_smin2, a, b, out)


def maximum(a, b, out=None, **k):
    if not _any_sym(a, b):
        return _np.maximum(a, b, out=out, **k) if out is not None else _np.maximum(a, b, **k)
    return _map2(_smax2, a, b, out)


def _ssqrt(x):
    if isinstance(x, SReal):
        return core.ssqrt(x)
    if isinstance(x, float) and x == _INF:
        return x
    return core.ssqrt(ctx().const(x))


def sqrt(a, **k):
    if not _any_sym(a):
        if core.CTX is not None and isinstance(a, (int, float, _np.integer, _np.floating)) and not isinstance(a, bool) and _np.isfinite(a) and a >= 0:
            # sqrt of a concrete number inside a symbolic run is the exact algebraic constant (sqrt(2) is not 1.4142135623730951)
            return _ssqrt(ctx().const(a))
        return _np.sqrt(a, **k)
    return _map1(_ssqrt, a)


def _sabs(x):
    if isinstance(x, SReal):
        return core.sabs(x)
    return abs(x)


def absolute(a, **k):
    if not _any_sym(a):
        return _np.abs(a, **k)
    return _map1(_sabs, a)


def square(a):
    return a * a


def _sround(x):
    if not isinstance(x, SReal):
        return round(x)
    return sround(x)


def sround(x):
    """round-half-even of a symbolic real: fork the integer over the feasible finite range
    (inputs must be range-bounded by the harness)."""
    c = ctx()
    if x.is_const():
        v = x.const_value()
        import math

        fl = math.floor(v)
        d = v - fl
        if d < Fraction(1, 2):
            k = fl
        elif d > Fraction(1, 2):
            k = fl + 1
        else:
            k = fl if fl % 2 == 0 else fl + 1
        return c.const(k)
    lo, hi = c.engine.round_range
    alts = []
    ks = list(range(lo, hi + 1))
    half = Fraction(1, 2)
    for k in ks:
        d = x - k  # in [-1/2, 1/2], ties to even
        if k % 2 == 0:
            cond = f_and(_F(d >= -half), _F(d <= half))
        else:
            cond = f_and(_F(d > -half), _F(d < half))
        alts.append(cond)
    i = c.decide(alts)
    return c.const(ks[i])


def _int_fork(x, kind):
    """integer part of symbolic x by forking over the engine's bounded integer range.
    kind: 'floor' (k <= x < k+1), 'ceil' (k-1 < x <= k), 'trunc' (toward zero)"""
    c = ctx()
    if not isinstance(x, SReal):
        import math

        return {"floor": math.floor, "ceil": math.ceil, "trunc": math.trunc}[kind](x)
    if x.is_const():
        import math

        v = x.const_value()
        return {"floor": math.floor, "ceil": math.ceil, "trunc": math.trunc}[kind](v)
    lo, hi = c.engine.round_range
    ks = list(range(lo - 1, hi + 2))
    alts = []
    for k in ks:
        if kind == "floor":
            alts.append(f_and(_F(x >= k), _F(x < k + 1)))
        elif kind == "ceil":
            alts.append(f_and(_F(x > k - 1), _F(x <= k)))
        else:
            if k > 0:
                alts.append(f_and(_F(x >= k), _F(x < k + 1)))
            elif k < 0:
                alts.append(f_and(_F(x > k - 1), _F(x <= k)))
            else:
                alts.append(f_and(_F(x > -1), _F(x < 1)))
    return ks[c.decide(alts)]


def floor(a, **k):
    if not _any_sym(a):
        return _np.floor(a, **k)
    return _map1(lambda x: ctx().const(_int_fork(x, "floor")), a)


def ceil(a, **k):
    if not _any_sym(a):
        return _np.ceil(a, **k)
    return _map1(lambda x: ctx().const(_int_fork(x, "ceil")), a)


def trunc(a, **k):
    if not _any_sym(a):
        return _np.trunc(a, **k)
    return _map1(lambda x: ctx().const(_int_fork(x, "trunc")), a)


def mod(a, b, **k):
    """numpy.mod / remainder: result has the sign of the divisor: a - floor(a/b)*b"""
    if not _any_sym(a, b):
        return _np.mod(a, b, **k)
    return _map2(lambda x, y: x - ctx().const(_int_fork(SReal.lift(x) / y, "floor")) * y, a, b)


def fmod(a, b, **k):
    """numpy.fmod: result has the sign of the dividend: a - trunc(a/b)*b"""
    if not _any_sym(a, b):
        return _np.fmod(a, b, **k)
    return _map2(lambda x, y: x - ctx().const(_int_fork(SReal.lift(x) / y, "trunc")) * y, a, b)


def sign(a, **k):
    if not _any_sym(a):
        return _np.sign(a, **k)

    def sg(x):
        if not isinstance(x, SReal):
            return (x > 0) - (x < 0)
        if _tobool(x > 0):
            return ctx().const(1)
        if _tobool(x < 0):
            return ctx().const(-1)
        return ctx().const(0)

    return _map1(sg, a)


def _F(b):
    if isinstance(b, Formula):
        return b
    return core.TRUE if b else core.FALSE


def round_(a, decimals=0, **k):
    if not _any_sym(a):
        return _np.round(a, decimals, **k)
    if decimals != 0:
        raise Unsupported("round with decimals")
    return _map1(_sround, a)


# ------------------------------------------------------------------ reductions with comparisons


def _vals(a):
    a = _np.asarray(a)
    return [a.reshape(-1)[i] for i in range(a.size)]


def _cmp_f(x, y, op):
    """formula for x op y with infinities handled"""
    if op == "<":
        r = x < y
    elif op == "<=":
        r = x <= y
    elif op == ">":
        r = x > y
    else:
        r = x >= y
    if r is NotImplemented:
        raise Unsupported("comparison")
    return _F(bool(r)) if not isinstance(r, Formula) else r


def argmax(a, axis=None, **k):
    if not _any_sym(a):
        return _np.ndarray.argmax(_np.asarray(a), axis=axis)
    if axis is not None:
        a = _np.asarray(a)
        return _np.apply_along_axis(lambda v: argmax(v), axis, a).astype(int)
    v = _vals(a)
    n = len(v)
    if n == 1:
        return 0
    alts = []
    for i in range(n):
        conds = [_cmp_f(v[j], v[i], "<") for j in range(i)] + [_cmp_f(v[j], v[i], "<=") for j in range(i + 1, n)]
        alts.append(f_and(*conds))
    return int(ctx().decide(alts))


class LazyArgVector:
    """result of argmin/argmax along an axis of a 2-D symbolic array: each entry is decided (forked)
    only when it is first read, so rows the analysed code never looks at cost no paths"""

    def __init__(self, rows, fn):
        self._rows = rows
        self._fn = fn
        self._val = {}
        self.shape = (len(rows),)
        self.ndim = 1
        self.dtype = _np.dtype(int)

    def __len__(self):
        return len(self._rows)

    def _get(self, i):
        i = int(i)
        if i < 0:
            i += len(self._rows)
        if i not in self._val:
            self._val[i] = int(self._fn(self._rows[i]))
        return self._val[i]

    def __getitem__(self, i):
        if isinstance(i, (int, _np.integer)):
            return self._get(i)
        return _np.asarray(self)[i]

    def __iter__(self):
        return (self._get(i) for i in range(len(self._rows)))

    def __array__(self, dtype=None, copy=None):
        return _np.array([self._get(i) for i in range(len(self._rows))], dtype=dtype or int)

    def tolist(self):
        return list(self)


def argmin(a, axis=None, **k):
    if not _any_sym(a):
        return _np.ndarray.argmin(_np.asarray(a), axis=axis)
    if axis is not None:
        a = _np.asarray(a)
        if a.ndim == 2:
            am = _np.moveaxis(a, axis, -1)
            return LazyArgVector([am[i] for i in range(am.shape[0])], argmin)
        res = _np.empty([s for i, s in enumerate(a.shape) if i != axis % a.ndim], dtype=int)
        am = _np.moveaxis(a, axis, -1)
        for idx in _np.ndindex(*am.shape[:-1]):
            res[idx] = argmin(am[idx])
        return res
    v = _vals(a)
    n = len(v)
    if n == 1:
        return 0
    alts = []
    for i in range(n):
        conds = [_cmp_f(v[j], v[i], ">") for j in range(i)] + [_cmp_f(v[j], v[i], ">=") for j in range(i + 1, n)]
        alts.append(f_and(*conds))
    return int(ctx().decide(alts))


def amax(a, axis=None, **k):
    if not _any_sym(a):
        return _np.max(a, axis=axis, **k)
    a = _np.asarray(a)
    if axis is None:
        v = _vals(a)
        out = v[0]
        for x in v[1:]:
            out = _smax2(out, x)
        return out
    am = _np.moveaxis(a, axis, -1)
    res = _np.empty(am.shape[:-1], dtype=object)
    for idx in _np.ndindex(*am.shape[:-1]):
        res[idx] = amax(am[idx])
    return res.view(SymArray)


def amin(a, axis=None, **k):
    if not _any_sym(a):
        return _np.min(a, axis=axis, **k)
    a = _np.asarray(a)
    if axis is None:
        v = _vals(a)
        out = v[0]
        for x in v[1:]:
            out = _smin2(out, x)
        return out
    am = _np.moveaxis(a, axis, -1)
    res = _np.empty(am.shape[:-1], dtype=object)
    for idx in _np.ndindex(*am.shape[:-1]):
        res[idx] = amin(am[idx])
    return res.view(SymArray)


def argsort(a, axis=-1, **k):
    if not _any_sym(a):
        return _np.argsort(a, axis=axis, **k)
    a = _np.asarray(a)
    if a.ndim != 1:
        am = _np.moveaxis(a, axis, -1)
        res = _np.empty(am.shape, dtype=int)
        for idx in _np.ndindex(*am.shape[:-1]):
            res[idx] = argsort(am[idx])
        return _np.moveaxis(res, -1, axis)
    # stable insertion sort with symbolic comparisons (forks lazily through bool())
    idx = list(range(a.shape[0]))
    out = []
    for i in idx:
        pos = len(out)
        while pos > 0:
            c = _cmp_f(a[i], a[out[pos - 1]], "<")
            if bool(c):
                pos -= 1
            else:
                break
        out.insert(pos, i)
    return _np.array(out, dtype=int)


def sort(a, axis=-1, **k):
    if not _any_sym(a):
        return _np.sort(a, axis=axis, **k)
    a = _np.asarray(a)
    if a.ndim == 1:
        return a[argsort(a)]
    raise Unsupported("sort nd")


def _tobool(x):
    if isinstance(x, Formula):
        return bool(x)
    if isinstance(x, SReal):
        return bool(x)
    return bool(x)


def where(cond, *args):
    if not _any_sym(cond, *args):
        return _np.where(cond, *args)
    cond = _np.asarray(cond)
    if cond.dtype == object:
        cb = _np.empty(cond.shape, dtype=bool)
        for idx in _np.ndindex(*cond.shape):
            cb[idx] = _tobool(cond[idx])
        cond = cb
    if not args:
        return _np.where(cond)
    x, y = args
    res = _np.where(cond, _np.asarray(x, dtype=object), _np.asarray(y, dtype=object))
    return res.view(SymArray)


def any_(a, *args, **k):
    a = _np.asarray(a)
    if a.dtype != object:
        return _np.any(a, *args, **k)
    for x in _vals(a):
        if _tobool(x):
            return True
    return False


def all_(a, *args, **k):
    a = _np.asarray(a)
    if a.dtype != object:
        return _np.all(a, *args, **k)
    for x in _vals(a):
        if not _tobool(x):
            return False
    return True


def boolarr(a):
    """concretise an object array of formulas / bools into a real bool array (forks)"""
    a = _np.asarray(a)
    if a.dtype != object:
        return a.astype(bool)
    cb = _np.empty(a.shape, dtype=bool)
    for idx in _np.ndindex(*a.shape):
        cb[idx] = _tobool(a[idx])
    return cb


# ------------------------------------------------------------------ allocation


def _is_float_dtype(dtype):
    if dtype is None or dtype is float:
        return True
    try:
        return _np.dtype(dtype).kind in "fc"
    except TypeError:
        return False


def zeros(shape, dtype=None, **k):
    if core.CTX is None or not _is_float_dtype(dtype):
        return _np.zeros(shape, dtype=dtype if dtype is not None else float, **k)
    out = _np.empty(shape, dtype=object)
    z = ctx().const(0)
    out.fill(z)
    return out.view(SymArray)


def ones(shape, dtype=None, **k):
    if core.CTX is None or not _is_float_dtype(dtype):
        return _np.ones(shape, dtype=dtype if dtype is not None else float, **k)
    out = _np.empty(shape, dtype=object)
    out.fill(ctx().const(1))
    return out.view(SymArray)


def empty(shape, dtype=None, **k):
    if core.CTX is None or not _is_float_dtype(dtype):
        return _np.empty(shape, dtype=dtype if dtype is not None else float, **k)
    return zeros(shape)


def full(shape, fill_value, dtype=None, **k):
    if core.CTX is None or isinstance(fill_value, (bool, _np.bool_)) or (dtype is not None and not _is_float_dtype(dtype)):
        return _np.full(shape, fill_value, dtype=dtype, **k)
    if isinstance(fill_value, (int, _np.integer)) and dtype is None:
        return _np.full(shape, fill_value, **k)
    out = _np.empty(shape, dtype=object)
    if isinstance(fill_value, float) and fill_value in (_INF, -_INF):
        out.fill(fill_value)
    elif isinstance(fill_value, SReal):
        out.fill(fill_value)
    else:
        out.fill(ctx().const(fill_value))
    return out.view(SymArray)


def eye(n, m=None, k=0, dtype=None, **kw):
    if core.CTX is None or not _is_float_dtype(dtype):
        return _np.eye(n, m, k, dtype=dtype if dtype is not None else float, **kw)
    e = _np.eye(n, m, k)
    return sym(e)


def identity(n, dtype=None):
    return eye(n, dtype=dtype)


def zeros_like(a, dtype=None, **k):
    if is_sym(a) and dtype is None:
        return zeros(a.shape)
    return _np.zeros_like(a, dtype=dtype, **k)


def ones_like(a, dtype=None, **k):
    if is_sym(a) and dtype is None:
        return ones(a.shape)
    return _np.ones_like(a, dtype=dtype, **k)


def _rewrap(fn):
    def w(*a, **k):
        r = fn(*a, **k)
        if isinstance(r, _np.ndarray) and r.dtype == object and not isinstance(r, SymArray):
            return r.view(SymArray)
        return r

    w.__name__ = getattr(fn, "__name__", "w")
    return w


def array(obj, dtype=None, **k):
    if dtype is not None and _is_float_dtype(dtype) and _contains_sym(obj):
        r = _np.array(obj, dtype=object, **k)
        return r.view(SymArray)
    r = _np.array(obj, dtype=dtype, **k)
    if r.dtype == object:
        return r.view(SymArray)
    return r


def asarray(obj, dtype=None, **k):
    if isinstance(obj, _np.ndarray) and obj.dtype == object:
        return obj
    return array(obj, dtype=dtype, **k)


def _contains_sym(obj):
    if isinstance(obj, SReal):
        return True
    if isinstance(obj, _np.ndarray):
        return obj.dtype == object
    if isinstance(obj, (list, tuple)):
        return any(_contains_sym(o) for o in obj)
    return False


# ------------------------------------------------------------------ linear algebra helpers


def norm(x, ord=None, axis=None, keepdims=False):
    if not _any_sym(x):
        return _np.linalg.norm(x, ord=ord, axis=axis, keepdims=keepdims)
    x = _np.asarray(x)
    if ord not in (None, 2, "fro"):
        raise Unsupported(f"norm ord={ord}")
    if ord == 2 and x.ndim == 2 and axis is None:
        raise Unsupported("spectral norm")
    sq = (x * x).sum(axis=axis, keepdims=keepdims)  # elementwise x*x carries the nonneg flag
    return sqrt(sq) if isinstance(sq, _np.ndarray) else _ssqrt(sq)


def trace(a, *args, **k):
    if not _any_sym(a):
        return _np.trace(a, *args, **k)
    a = _np.asarray(a)
    n = min(a.shape)
    s = a[0, 0]
    for i in range(1, n):
        s = s + a[i, i]
    return s


def average(a, axis=None, weights=None, **k):
    if not _any_sym(a, weights):
        return _np.average(a, axis=axis, weights=weights, **k)
    a = sym(a)
    if weights is None:
        return a.mean(axis=axis)
    w = sym(weights)
    if axis is None:
        return (a * w).sum() / w.sum()
    if w.ndim == 1 and a.ndim > 1:
        shape = [1] * a.ndim
        shape[axis] = a.shape[axis]
        wb = w.reshape(shape)
    else:
        wb = w
    return (a * wb).sum(axis=axis) / w.sum()


def mean(a, axis=None, **k):
    if not _any_sym(a):
        return _np.mean(a, axis=axis, **k)
    a = sym(a)
    if axis is None:
        return a.sum() / a.size
    return a.sum(axis=axis) / a.shape[axis]


def _isclose1(x, y, rtol, atol):
    xi = isinstance(x, float) and x in (_INF, -_INF)
    yi = isinstance(y, float) and y in (_INF, -_INF)
    if xi or yi:
        return bool(xi and yi and x == y)
    d = core.sabs(SReal.lift(x) - y)
    return _tobool(d <= core.sabs(SReal.lift(y)) * rtol + atol)


def isclose(a, b, rtol=1e-05, atol=1e-08, **k):
    """|a - b| <= atol + rtol * |b| elementwise (numpy's definition); symbolic elements fork"""
    if not _any_sym(a, b):
        return _np.isclose(a, b, rtol=rtol, atol=atol, **k)
    a_, b_ = _np.broadcast_arrays(_np.asarray(a, dtype=object), _np.asarray(b, dtype=object))
    out = _np.empty(a_.shape, dtype=bool)
    for idx in _np.ndindex(*a_.shape):
        out[idx] = _isclose1(a_[idx], b_[idx], rtol, atol)
    return out if out.shape else bool(out)


def allclose(a, b, rtol=1e-05, atol=1e-08, **k):
    if not _any_sym(a, b):
        return _np.allclose(a, b, rtol=rtol, atol=atol, **k)
    return bool(_np.all(isclose(a, b, rtol=rtol, atol=atol)))


def real(a):
    return a


def isnan(a):
    if _any_sym(a):
        return _np.zeros(_np.shape(a), dtype=bool)
    return _np.isnan(a)


def isfinite(a):
    if _any_sym(a):
        a = _np.asarray(a)
        out = _np.ones(a.shape, dtype=bool)
        for idx in _np.ndindex(*a.shape):
            v = a[idx]
            if isinstance(v, float) and (v != v or v in (_INF, -_INF)):
                out[idx] = False
        return out
    return _np.isfinite(a)


def power(a, b):
    return a**b


def dot(a, b):
    return _np.dot(a, b) if not _any_sym(a, b) else (sym(a) @ sym(b))


def cumsum(a, axis=None, **k):
    if not _any_sym(a):
        return _np.cumsum(a, axis=axis, **k)
    a = _np.asarray(a)
    if a.ndim != 1:
        raise Unsupported("cumsum nd")
    out = _np.empty(a.shape, dtype=object)
    s = None
    for i in range(a.shape[0]):
        s = a[i] if s is None else s + a[i]
        out[i] = s
    return out.view(SymArray)


def sum_(a, axis=None, **k):
    if not _any_sym(a):
        return _np.sum(a, axis=axis, **k)
    return _np.asarray(a).sum(axis=axis, **{kk: v for kk, v in k.items() if kk in ("keepdims",)})


def diag(v, k=0):
    r = _np.diag(v, k)
    if is_sym(v):
        if r.ndim == 2:
            # off-diagonal entries are int 0 -> make them exact zeros
            z = ctx().const(0)
            for idx in _np.ndindex(*r.shape):
                if isinstance(r[idx], int) and r[idx] == 0 and idx[0] + k != idx[1]:
                    r[idx] = z
        return r.view(SymArray) if not r.flags.writeable else r.copy().view(SymArray)
    return r


class _LinalgShim:
    def __init__(self, stubs):
        self._stubs = stubs

    def __getattr__(self, name):
        if name in self._stubs:
            return self._stubs[name]
        if name == "norm":
            return norm
        real_fn = getattr(_np.linalg, name)

        def guarded(*a, **k):
            if _any_sym(*a):
                raise Unsupported(f"np.linalg.{name} on symbolic array (no stub installed)")
            return real_fn(*a, **k)

        return guarded


_OVERRIDES = {
    "minimum": minimum,
    "maximum": maximum,
    "fmin": minimum,
    "fmax": maximum,
    "sqrt": sqrt,
    "abs": absolute,
    "absolute": absolute,
    "fabs": absolute,
    "square": square,
    "round": round_,
    "around": round_,
    "rint": round_,
    "floor": floor,
    "ceil": ceil,
    "trunc": trunc,
    "fix": trunc,
    "mod": mod,
    "remainder": mod,
    "fmod": fmod,
    "sign": sign,
    "argmax": argmax,
    "argmin": argmin,
    "max": amax,
    "amax": amax,
    "min": amin,
    "amin": amin,
    "argsort": argsort,
    "sort": sort,
    "where": where,
    "any": any_,
    "all": all_,
    "zeros": zeros,
    "ones": ones,
    "empty": empty,
    "full": full,
    "eye": eye,
    "identity": identity,
    "zeros_like": zeros_like,
    "ones_like": ones_like,
    "array": array,
    "asarray": asarray,
    "trace": trace,
    "average": average,
    "mean": mean,
    "isclose": isclose,
    "allclose": allclose,
    "real": real,
    "isnan": isnan,
    "isfinite": isfinite,
    "power": power,
    "dot": dot,
    "cumsum": cumsum,
    "sum": sum_,
    "diag": diag,
}
for _n in ("concatenate", "pad", "vstack", "hstack", "stack", "column_stack", "take", "flip", "copy", "transpose",
           "reshape", "atleast_2d", "squeeze", "delete", "append", "tile", "repeat", "outer", "matmul", "einsum",
           "subtract", "add", "multiply", "divide", "true_divide", "negative", "triu", "tril", "roll", "moveaxis",
           "swapaxes", "expand_dims", "ravel", "split", "array_split", "broadcast_to", "diagonal", "nan_to_num"):
    _OVERRIDES[_n] = _rewrap(getattr(_np, _n))


class NpShim(types.ModuleType):
    """module-like proxy for numpy with symbolic-aware overrides"""

    def __init__(self, linalg_stubs=None, extra=None):
        super().__init__("numpy_symx_shim")
        self.__dict__["linalg"] = _LinalgShim(linalg_stubs or {})
        self.__dict__["_extra"] = dict(extra or {})

    def __getattr__(self, name):
        ex = self.__dict__["_extra"]
        if name in ex:
            return ex[name]
        if name in _OVERRIDES:
            return _OVERRIDES[name]
        return getattr(_np, name)
