"""Check runner: configuration grid -> symbolic exploration per configuration (process
pool) -> obligations by solver tiers -> replay of candidates on the unpatched float
code -> known-finding triage -> evidence file + exit code.

Exit codes: 0 held (possibly KNOWN-FINDING lines), 1 unlisted reproduced violation,
3 inconclusive / harness error.
"""
from __future__ import annotations

import hashlib
import inspect
import json
import os
import re
import sys
import time
import traceback
from concurrent.futures import ProcessPoolExecutor, as_completed
from fractions import Fraction

from . import core, patch
from .core import Engine, PathAbort, Unsupported

VERIF = os.path.dirname(os.path.dirname(os.path.abspath(__file__)))


class Path:
    """per-path obligation recorder handed to harnesses"""

    def __init__(self, c, cfg):
        self.c = c
        self.cfg = cfg
        self.candidates = []  # (clause, model_values, detail)
        self.unknown = []  # clause labels undecided
        self.decided = {}  # clause -> count
        self.notes = []
        self.hyp = None  # optional callable returning the hypothesis formula of all obligations

    def require(self, prop, clause, detail=None):
        if self.hyp is not None:
            h = self.hyp()
            if not (h.kind == "const" and h.a):
                if prop is True:
                    pass
                elif prop is False:
                    prop = ~h
                else:
                    prop = core.f_or(~h, prop)
        r = self.c.prove(prop, clause)
        if r == "holds":
            self.decided[clause] = self.decided.get(clause, 0) + 1
            return True
        if r == "unknown":
            self.unknown.append(clause)
            return None
        self.candidates.append((clause, r[1], detail))
        return False

    def require_all(self, props, clause, detail=None):
        """conjunction decided in one query when possible"""
        fs = []
        for p in props:
            if p is True:
                continue
            if p is False:
                return self.require(False, clause, detail)
            fs.append(p)
        if not fs:
            self.c.stats.obligations += 1
            self.c.stats.t0 += 1
            self.decided[clause] = self.decided.get(clause, 0) + 1
            return True
        return self.require(core.f_and(*fs), clause, detail)

    def note(self, s):
        self.notes.append(s)


class Check:
    pid = "C00"
    title = ""
    modules = []  # skmatter modules whose globals are patched
    extra_patches = None
    linalg_stubs = None
    engine_opts = {}
    expected_events = ()  # event kinds that are part of the precondition (path excluded)
    violation_events = ()  # event kinds that are candidate violations
    # exceptions of these types escaping the analysed API on a symbolic path are candidate violations ("call fails"); they are
    # reported only if the concrete replay of a model of that path fails as well, otherwise they stay harness errors
    api_exceptions = (ValueError, TypeError, IndexError, ZeroDivisionError, AttributeError, KeyError, ArithmeticError)
    witness_search = 40  # float inputs tried when a solver candidate does not reproduce after rounding
    witness_grid = [-2, -1, 0, 1, 2, 3, Fraction(1, 2), Fraction(-3, 2), Fraction(5, 4)]
    probe_events = ()  # event kinds ending the symbolic claim; one witness per such path is replayed concretely
    stubs = []
    assumptions = []
    bounds_text = ""
    outside = []

    def configs(self, tier):
        raise NotImplementedError

    def harness(self, c, cfg, P):
        raise NotImplementedError

    def concrete(self, cfg, values):
        """run the real float code on model values: return (outcome, [(clause, detail)])"""
        raise NotImplementedError

    def signature(self, cfg, clause, values, detail):
        return f"{self.pid}/{clause}"

    def patches(self, cfg):
        return self.extra_patches

    def fix_values(self, cfg, new, model):
        """make randomly drawn witness values respect the harness' assumptions (default: keep solver values for
        parameters that are not data: names not containing '_')"""
        for k, v in model.items():
            if "_" not in k and v is not None:
                new[k] = v
        return new

    def same_outcome(self, cfg, sym_out, real_out):
        """compare the discrete outcome of a symbolic path with the real run on its witness"""
        return _jsonable(sym_out) == _jsonable(real_out)

    def validate_translation(self):
        """optional: push the repo's own test inputs through shim and real numpy"""
        return []


def _jsonable(o):
    if isinstance(o, Fraction):
        return str(o)
    if isinstance(o, dict):
        return {str(k): _jsonable(v) for k, v in o.items()}
    if isinstance(o, (list, tuple)):
        return [_jsonable(v) for v in o]
    if isinstance(o, (str, int, float, bool)) or o is None:
        return o
    try:
        import numpy as np

        if isinstance(o, np.ndarray):
            return _jsonable(o.tolist())
        if isinstance(o, np.generic):
            return o.item()
    except Exception:
        pass
    return repr(o)


class _Profiler:
    """records which skmatter functions were entered (sys.monitoring PY_START; events for code
    objects outside /repo/src are disabled after their first occurrence, so the overhead is small)"""

    TOOL = 3

    def __init__(self):
        self.codes = {}

    def start(self):
        mon = sys.monitoring
        try:
            mon.use_tool_id(self.TOOL, "symx-functions")
        except ValueError:
            pass
        mon.register_callback(self.TOOL, mon.events.PY_START, self._cb)
        mon.set_events(self.TOOL, mon.events.PY_START)

    def stop(self):
        mon = sys.monitoring
        mon.set_events(self.TOOL, 0)
        mon.register_callback(self.TOOL, mon.events.PY_START, None)
        try:
            mon.free_tool_id(self.TOOL)
        except ValueError:
            pass

    def _cb(self, co, offset):
        fn = co.co_filename
        if fn.startswith(patch.REPO_SRC + "skmatter/"):
            if co not in self.codes:
                self.codes[co] = (fn, co.co_qualname, co.co_firstlineno)
        return sys.monitoring.DISABLE

    def result(self):
        out = {}
        for co, (fn, qn, ln) in self.codes.items():
            if qn.startswith("<"):
                continue
            try:
                lines, _ = inspect.getsourcelines(co)
                h = hashlib.sha1("".join(lines).encode()).hexdigest()[:12]
            except Exception:
                h = "?"
            out[f"{fn[len(patch.REPO_SRC):]}::{qn}"] = h
        return out


def run_config(check, cfg, tier, idx):
    """explore one configuration; returns a JSON-able result dict"""
    t0 = time.time()
    opts = dict(check.engine_opts)
    opts.update(cfg.get("_engine", {}))
    round_range = opts.pop("round_range", (-4, 4))
    eng = Engine(**opts)
    eng.round_range = round_range
    res = {
        "cfg": {k: v for k, v in cfg.items() if not k.startswith("_")},
        "paths": 0,
        "violations": [],
        "unconfirmed": [],
        "inconclusive": [],
        "events": {},
        "decided": {},
        "samples": [],
        "validated": 0,
        "validate_attempts": 0,
        "validation_mismatch": [],
        "functions": {},
        "errors": [],
    }
    prof = _Profiler()
    first = [True]
    max_validate = cfg.get("_validate", 6)

    def harness(c):
        P = Path(c, cfg)
        c._P = P
        if first[0]:
            first[0] = False
            prof.start()
            try:
                out = _guarded(check, c, cfg, P)
            finally:
                prof.stop()
        else:
            out = _guarded(check, c, cfg, P)
        return out

    try:
        extra_patches = check.patches(cfg)
        mods = check.modules_for(cfg) if hasattr(check, "modules_for") else check.modules
        with patch.patched(mods, extra=extra_patches, linalg_stubs=check.linalg_stubs):
            for c, out, abort in eng.explore(harness):
                P = getattr(c, "_P", None)
                res["paths"] += 1
                if abort is not None:
                    k = abort.kind
                    res["events"][k] = res["events"].get(k, 0) + 1
                    if k in check.violation_events:
                        # candidate: an event the property forbids; needs a model of the PC
                        mv = c.find_model()
                        if isinstance(mv, dict):
                            P.candidates.append((f"event:{k}", mv, abort.info))
                        elif mv is None:
                            P.unknown.append(f"event:{k}")
                    elif k in check.probe_events:
                        mv = c.find_model(timeout_ms=3000)
                        if isinstance(mv, dict):
                            try:
                                with _unpatched():
                                    oc, viol = check.concrete(cfg, mv)
                                res["probed"] = res.get("probed", 0) + 1
                                if viol:
                                    res["violations"].append({"clause": f"probe:{k}", "detail": abort.info, "values": _jsonable(mv), "trace": list(c.trace),
                                                              "reproduced": _jsonable(viol), "signature": check.signature(cfg, f"probe:{k}", mv, viol)})
                            except Exception as e:  # noqa
                                res["probe_errors"] = res.get("probe_errors", 0) + 1
                    elif k in ("infeasible", "assume-false") or k in check.expected_events:
                        pass
                    else:
                        res["errors"].append(f"unexpected event {k} {abort.info} cfg={res['cfg']}")
                if P is None:
                    continue
                exc = getattr(P, "api_exception", None)
                if exc is not None:
                    mv = c.find_model(timeout_ms=4000)
                    confirmed = False
                    if isinstance(mv, dict):
                        try:
                            with _unpatched():
                                oc, viol = check.concrete(cfg, mv)
                            if viol:
                                res["violations"].append({"clause": f"api-exception:{type(exc).__name__}", "detail": repr(exc)[:200], "values": _jsonable(mv), "trace": list(c.trace),
                                                          "reproduced": _jsonable(viol), "signature": check.signature(cfg, "api-exception", mv, viol)})
                                confirmed = True
                        except check.api_exceptions as e2:
                            res["violations"].append({"clause": f"api-exception:{type(exc).__name__}", "detail": repr(exc)[:200], "values": _jsonable(mv), "trace": list(c.trace),
                                                      "reproduced": [["api-call-raises", repr(e2)[:200]]], "signature": f"{check.pid}/api-exception/{type(e2).__name__}"})
                            confirmed = True
                        except Exception:  # noqa
                            pass
                    if not confirmed:
                        res["errors"].append("harness exception: " + P.api_trace)
                    continue
                for cl, n in P.decided.items():
                    res["decided"][cl] = res["decided"].get(cl, 0) + n
                for cl in P.unknown:
                    res["inconclusive"].append({"clause": cl, "trace": list(c.trace)})
                # candidates -> replay on the real float code (patches are inactive inside concrete())
                for clause, mv, detail in P.candidates:
                    rec = {"clause": clause, "detail": _jsonable(detail), "values": _jsonable(mv), "trace": list(c.trace)}
                    if mv is None:
                        res["unconfirmed"].append(rec)
                        continue
                    try:
                        with _unpatched():
                            oc, viol = check.concrete(cfg, mv)
                    except Exception as e:  # noqa
                        rec["replay_error"] = "".join(traceback.format_exception_only(type(e), e)).strip()
                        res["unconfirmed"].append(rec)
                        continue
                    if not viol:
                        # the solver's model does not survive rounding to float64 / the tolerance of the float oracle
                        # (degenerate or tiny-margin model): search nearby well-conditioned inputs for a reproducing witness
                        import random

                        rng = random.Random(1234 + len(res["violations"]))
                        for attempt in range(check.witness_search):
                            mv2 = {k: Fraction(rng.choice(check.witness_grid)) if attempt % 2 == 0 else Fraction(rng.randint(-40, 40), 8) for k in mv}
                            mv2 = check.fix_values(cfg, mv2, mv)
                            try:
                                with _unpatched():
                                    oc2, viol2 = check.concrete(cfg, mv2)
                            except Exception:  # noqa
                                continue
                            if viol2:
                                viol, mv = viol2, mv2
                                rec["values"] = _jsonable(mv2)
                                rec["witness_found_by_search_after_solver_candidate"] = True
                                break
                    if viol:
                        rec["reproduced"] = _jsonable(viol)
                        rec["signature"] = check.signature(cfg, clause, mv, viol)
                        res["violations"].append(rec)
                    else:
                        res["unconfirmed"].append(rec)
                # witness validation of the path's discrete outcome
                if abort is None and out is not None and res["validate_attempts"] < max_validate:
                    res["validate_attempts"] += 1
                    mv = c.find_model(timeout_ms=2500)
                    if isinstance(mv, dict):
                        try:
                            with _unpatched():
                                oc, _ = check.concrete(cfg, mv)
                            if check.same_outcome(cfg, out, oc):
                                res["validated"] += 1
                            else:
                                res["validation_mismatch"].append({"sym": _jsonable(out), "real": _jsonable(oc), "values": _jsonable(mv)})
                        except Exception as e:  # noqa
                            res["validation_mismatch"].append({"sym": _jsonable(out), "error": repr(e), "values": _jsonable(mv)})
                if abort is None:
                    res["completed"] = res.get("completed", 0) + 1
                if len(res["samples"]) < 2 and abort is None:
                    res["samples"].append({"cfg": res["cfg"], "decisions": list(c.trace), "n_constraints": len(c.pc),
                                           "outcome": _jsonable(out), "clauses": sorted(P.decided)})
    except Unsupported as e:
        res["errors"].append(f"unsupported operation: {e} cfg={res['cfg']}")
    except core.Inconclusive as e:
        res["errors"].append(f"inconclusive: {e}")
    except Exception as e:  # noqa
        res["errors"].append("harness exception: " + "".join(traceback.format_exception(type(e), e, e.__traceback__))[-1500:])
    if res["paths"] and not res.get("completed") and not res["violations"] and not res["errors"]:
        # vacuity guard per configuration: every path ended in an (expected) event, so no obligation was evaluated
        res["errors"].append(f"no path of this configuration ran to completion (events {res['events']}) cfg={res['cfg']}")
    if eng.truncated:
        res["errors"].append(f"exploration truncated at {eng.stats.paths} paths cfg={res['cfg']}")
    res["stats"] = eng.stats.as_dict()
    res["functions"] = prof.result()
    res["wall_s"] = round(time.time() - t0, 2)
    return res


def _guarded(check, c, cfg, P):
    try:
        return check.harness(c, cfg, P)
    except check.api_exceptions as e:
        P.api_exception = e
        P.api_trace = "".join(traceback.format_exception(type(e), e, e.__traceback__))[-1200:]
        return None


class _unpatched:
    """temporarily leave the symbolic context (CTX=None) so concrete replays run the
    real code; module patches stay installed but every stub passes float arrays through."""

    def __enter__(self):
        self.saved = core.CTX
        core.CTX = None

    def __exit__(self, *a):
        core.CTX = self.saved


def _worker(args):
    check, cfg, tier, idx = args
    try:
        return run_config(check, cfg, tier, idx)
    except BaseException as e:  # noqa
        return {"cfg": cfg, "paths": 0, "violations": [], "unconfirmed": [], "inconclusive": [], "events": {}, "decided": {},
                "samples": [], "validated": 0, "validation_mismatch": [], "functions": {},
                "errors": ["worker crashed: " + "".join(traceback.format_exception(type(e), e, e.__traceback__))[-1500:]],
                "stats": core.Stats().as_dict(), "wall_s": 0}


def load_known():
    p = os.path.join(VERIF, "known_findings.json")
    if not os.path.exists(p):
        return []
    return json.load(open(p))["findings"]


def main(check, argv=None):
    import argparse

    ap = argparse.ArgumentParser()
    ap.add_argument("--tier", default=os.environ.get("VERIF_TIER", "quick"))
    ap.add_argument("--jobs", type=int, default=int(os.environ.get("VERIF_JOBS", "0")) or min(16, os.cpu_count() or 4))
    ap.add_argument("--only", default=None, help="substring filter on config json (debug)")
    ap.add_argument("--replay", default=None)
    ap.add_argument("--budget", type=float, default=0, help="wall budget in seconds (thorough tier; default 1800, env VERIF_BUDGET)")
    ap.add_argument("--index", type=int, default=None, help="run only the configuration with this index (debug)")
    a = ap.parse_args(argv)
    tier = a.tier if a.tier in ("quick", "thorough") else "quick"
    seed = int(os.environ.get("VERIF_SEED", "0") or 0)
    patch.assert_repo_source()
    if a.replay:
        return replay_file(check, a.replay)
    t0 = time.time()
    cfgs = check.configs(tier)
    if a.only:
        cfgs = [c for c in cfgs if a.only in json.dumps(c, sort_keys=True)]
    if a.index is not None:
        cfgs = [cfgs[a.index]]
    results = []
    tv_errors = []
    try:
        tv_errors = check.validate_translation() or []
    except Exception as e:  # noqa
        tv_errors = ["translation validation crashed: " + repr(e)]
    budget = float(os.environ.get("VERIF_BUDGET", "0") or 0) or (a.budget if a.budget else (0 if tier == "quick" else 1800))
    if not budget:
        # quick tier: every configuration must complete (a configuration that cannot is a broken check)
        order = sorted(range(len(cfgs)), key=lambda i: -cfgs[i].get("_cost", 1))
        if a.jobs <= 1 or len(cfgs) == 1:
            for i in order:
                results.append(_worker((check, cfgs[i], tier, i)))
        else:
            with ProcessPoolExecutor(max_workers=a.jobs) as ex:
                futs = [ex.submit(_worker, (check, cfgs[i], tier, i)) for i in order]
                for f in as_completed(futs):
                    results.append(f.result())
        return finish(check, tier, seed, results, tv_errors, time.time() - t0)
    # thorough tier: wall budget. Configurations run cheapest first in separate processes; when the budget is used up the
    # remaining / still running ones are stopped and LISTED as not completed in the evidence (they are not counted as explored
    # and never as success or failure: the verdict is about the completed configurations only).
    import multiprocessing as mp

    order = sorted(range(len(cfgs)), key=lambda i: cfgs[i].get("_cost", 1))
    ctxmp = mp.get_context("fork")
    q = ctxmp.Queue()

    def child(i):
        q.put((i, _worker((check, cfgs[i], tier, i))))

    running = {}
    pending = list(order)
    not_done = []
    deadline = t0 + budget
    while pending or running:
        now = time.time()
        while pending and len(running) < max(1, a.jobs) and now < deadline:
            i = pending.pop(0)
            pr = ctxmp.Process(target=child, args=(i,), daemon=True)
            pr.start()
            running[i] = pr
        try:
            i, r = q.get(timeout=1.0)
            results.append(r)
            pr = running.pop(i, None)
            if pr is not None:
                pr.join(timeout=5)
        except Exception:  # noqa  (queue.Empty)
            pass
        if time.time() >= deadline:
            for i, pr in list(running.items()):
                pr.terminate()
                not_done.append(i)
            running.clear()
            not_done.extend(pending)
            pending = []
    check._not_completed = [{k: v for k, v in cfgs[i].items() if not k.startswith("_")} for i in not_done]
    if not results:
        results.append(_worker((check, cfgs[order[0]], tier, order[0])))
    return finish(check, tier, seed, results, tv_errors, time.time() - t0)


def finish(check, tier, seed, results, tv_errors, wall):
    known = [k for k in load_known() if k["property"] == check.pid and k.get("status", "open") == "open"]
    agg = core.Stats()
    total = {"paths": 0, "validated": 0, "decisions": 0}
    decided = {}
    events = {}
    functions = {}
    samples = []
    errors = list(tv_errors)
    violations = []
    unconfirmed = []
    inconclusive = []
    mismatches = []
    qsum = {}
    solver_s = 0.0
    obligations = 0
    t0count = 0
    for r in results:
        total["paths"] += r["paths"]
        total["validated"] += r["validated"]
        st = r["stats"]
        total["decisions"] += st["decisions"]
        solver_s += st["solver_s"]
        obligations += st["obligations"]
        t0count += st["obligations_T0"]
        for k, v in st["queries"].items():
            qsum[k] = qsum.get(k, 0) + v
        for k, v in r["decided"].items():
            decided[k] = decided.get(k, 0) + v
        for k, v in r["events"].items():
            events[k] = events.get(k, 0) + v
        functions.update(r["functions"])
        if len(samples) < 6:
            samples.extend(r["samples"][:1])
        errors.extend(r["errors"])
        for v in r["violations"]:
            v["cfg"] = r["cfg"]
            violations.append(v)
        for v in r["unconfirmed"]:
            v["cfg"] = r["cfg"]
            unconfirmed.append(v)
        for v in r["inconclusive"]:
            v["cfg"] = r["cfg"]
            inconclusive.append(v)
        for v in r["validation_mismatch"]:
            v["cfg"] = r["cfg"]
            mismatches.append(v)
    # triage
    os.makedirs(os.path.join(VERIF, "replays"), exist_ok=True)
    known_hit = {}
    new_viol = []
    for v in violations:
        sig = v["signature"]
        hit = None
        for k in known:
            if sig == k["signature"] or (k.get("signature_prefix") and sig.startswith(k["signature_prefix"])) or \
                    (k.get("signature_re") and re.fullmatch(k["signature_re"], sig)):
                hit = k
                break
        if hit:
            known_hit.setdefault(hit["signature"], (hit, v))
        else:
            new_viol.append(v)
    out_lines = []
    for sig, (k, v) in sorted(known_hit.items()):
        out_lines.append(f"KNOWN-FINDING: property={check.pid} {k['what']} [signature {sig}]")
    seen_sig = set()
    nviol = 0
    for v in new_viol:
        if v["signature"] in seen_sig:
            continue
        seen_sig.add(v["signature"])
        nviol += 1
        h = hashlib.sha1(json.dumps(v, sort_keys=True).encode()).hexdigest()[:10]
        path = os.path.join(VERIF, "replays", f"{check.pid}-{h}.json")
        with open(path, "w") as f:
            json.dump({"property": check.pid, "check": check.__class__.__module__, **v}, f, indent=1)
        out_lines.append(f"VIOLATION property={check.pid} replay={path}")
        out_lines.append(f"  signature={v['signature']} clause={v['clause']} cfg={json.dumps(v['cfg'])} reproduced={json.dumps(v.get('reproduced'))[:300]}")
    harness_err = bool(errors) or bool(inconclusive) or bool(unconfirmed) or bool(mismatches)
    if total["paths"] == 0:
        harness_err = True
        errors.append("no path explored")
    # vacuity: at least one path must have been validated against the implementation per check
    if total["validated"] == 0:
        errors.append("vacuity: no explored path could be validated against the real implementation")
        harness_err = True
    ev = {
        "property_id": check.pid,
        "tier": tier,
        "seed": seed,
        "level": "model_checking",
        "coverage": {
            "states": total["paths"],
            "transitions": max(total["decisions"], 0) + total["paths"],
            "traces_validated_against_impl": total["validated"],
            "samples": samples or [{"note": "no completed path"}],
            "exhaustive": not any("truncated" in e for e in errors),
            "configurations": len(results),
            "functions_encoded": functions,
            "bounds": check.bounds_text,
            "stubs": check.stubs,
            "queries_by_tier": qsum,
            "obligations": obligations,
            "obligations_decided_by_normal_form_T0": t0count,
            "solver_s": round(solver_s, 2),
            "clauses_decided": decided,
            "clauses_outside_claim": check.outside,
            "events": events,
            "inconclusive": inconclusive[:10],
            "unconfirmed_candidates": unconfirmed[:10],
            "validation_mismatches": mismatches[:10],
            "known_findings_hit": sorted(known_hit),
            "configurations_not_completed_within_budget": getattr(check, "_not_completed", []),
            "errors": errors[:10],
            "encoding": "regenerated on every run: the real functions under /repo/src are executed on symbolic object arrays",
        },
        "assumptions": check.assumptions,
        "wall_s": round(wall, 2),
        "violations": nviol,
    }
    os.makedirs(os.path.join(VERIF, "evidence"), exist_ok=True)
    with open(os.path.join(VERIF, "evidence", f"{check.pid}.json"), "w") as f:
        json.dump(ev, f, indent=1)
    for l in out_lines:
        print(l)
    if getattr(check, "_not_completed", None):
        print(f"[{check.pid}] {len(check._not_completed)} configuration(s) not completed within the wall budget: listed in the evidence, not part of the verdict")
    print(f"[{check.pid}] tier={tier} configs={len(results)} paths={total['paths']} obligations={obligations} (T0 {t0count}) "
          f"validated={total['validated']} known={len(known_hit)} violations={nviol} inconclusive={len(inconclusive)} "
          f"unconfirmed={len(unconfirmed)} errors={len(errors)} mismatches={len(mismatches)} solver_s={solver_s:.1f} wall={wall:.1f}s")
    slow = sorted(results, key=lambda r: -r.get("wall_s", 0))[:3]
    print("  slowest configs:", [(r.get("wall_s"), r["paths"], json.dumps(r["cfg"])[:110]) for r in slow])
    if nviol:
        return 1
    if harness_err:
        for e in errors[:5]:
            print("HARNESS-ERROR:", e[:800])
        for v in inconclusive[:5]:
            print("INCONCLUSIVE:", json.dumps(v)[:400])
        for v in unconfirmed[:5]:
            print("UNCONFIRMED-CANDIDATE:", json.dumps(v)[:600])
        for v in mismatches[:5]:
            print("VALIDATION-MISMATCH:", json.dumps(v)[:600])
        return 3
    return 0


def replay_file(check, path):
    d = json.load(open(path))
    vals = {k: Fraction(v) for k, v in d["values"].items()}
    oc, viol = check.concrete(d["cfg"], vals)
    print("outcome:", oc)
    print("violations:", viol)
    if viol:
        print(f"VIOLATION property={check.pid} replay={path}")
        return 1
    return 0
