"""Run-time patching of analysed modules (no source edits): numpy shim, sklearn
validation stubs reproducing the aliasing contract for float64 C-contiguous input."""
from __future__ import annotations

import contextlib
import importlib
import os
import sys

import numpy as _np

from . import arrays
from .arrays import SymArray, is_sym
from .core import Unsupported

# ---------------------------------------------------------------- sklearn validation stubs


def _stub_check_array(array, accept_sparse=False, *, copy=False, ensure_2d=True, allow_nd=False,
                      ensure_min_samples=1, ensure_min_features=1, dtype="numeric", **k):
    if not is_sym(array):
        from sklearn.utils import check_array as real

        return real(array, accept_sparse=accept_sparse, copy=copy, ensure_2d=ensure_2d, allow_nd=allow_nd,
                    ensure_min_samples=ensure_min_samples, ensure_min_features=ensure_min_features, dtype=dtype, **k)
    a = array
    if ensure_2d:
        if a.ndim == 0:
            raise ValueError("Expected 2D array, got scalar array instead")
        if a.ndim == 1:
            raise ValueError("Expected 2D array, got 1D array instead")
    if not allow_nd and a.ndim >= 3:
        raise ValueError("Found array with dim %d. expected <= 2." % a.ndim)
    if ensure_min_samples > 0 and a.ndim >= 1 and a.shape[0] < ensure_min_samples:
        raise ValueError("Found array with %d sample(s) while a minimum of %d is required." % (a.shape[0], ensure_min_samples))
    if ensure_min_features > 0 and a.ndim == 2 and a.shape[1] < ensure_min_features:
        raise ValueError("Found array with %d feature(s) while a minimum of %d is required." % (a.shape[1], ensure_min_features))
    if copy:
        a = a.copy()
    return a  # float64 C-order input is returned as the same object by sklearn


def _stub_check_X_y(X, y, accept_sparse=False, *, multi_output=False, y_numeric=False, copy=False, **k):
    if not is_sym(X) and not is_sym(y):
        from sklearn.utils import check_X_y as real

        return real(X, y, accept_sparse=accept_sparse, multi_output=multi_output, y_numeric=y_numeric, copy=copy, **k)
    if y is None:
        raise ValueError("estimator requires y to be passed, but the target y is None")
    kk = {n: v for n, v in k.items() if n in ("ensure_2d", "allow_nd", "ensure_min_samples", "ensure_min_features", "dtype")}
    X = _stub_check_array(X, copy=copy, **kk)
    y = _as_arr(y)
    if multi_output:
        if y.ndim not in (1, 2):
            raise ValueError("bad y shape")
    else:
        if y.ndim == 2 and y.shape[1] == 1:
            y = y.reshape(-1)
        elif y.ndim != 1:
            raise ValueError("y should be a 1d array")
    if X.shape[0] != y.shape[0]:
        raise ValueError("Found input variables with inconsistent numbers of samples: %r" % [X.shape[0], y.shape[0]])
    return X, y


def _as_arr(y):
    if isinstance(y, _np.ndarray):
        return y
    return arrays.array(y)


def _stub_validate_data(self, X="no_validation", y="no_validation", reset=True, validate_separately=False,
                        cast_to_ndarray=True, **check_params):
    symbolic = is_sym(X) or is_sym(y)
    if not symbolic:
        return _REAL["_validate_data"](self, X, y, reset=reset, validate_separately=validate_separately,
                                       cast_to_ndarray=cast_to_ndarray, **check_params)
    no_x = isinstance(X, str) and X == "no_validation"
    no_y = y is None or (isinstance(y, str) and y == "no_validation")
    if no_x and no_y:
        raise ValueError("Validation should be done on X, y or both.")
    kk = {n: v for n, v in check_params.items() if n in ("ensure_2d", "allow_nd", "ensure_min_samples", "ensure_min_features", "dtype", "copy")}
    if not no_x and no_y:
        out = _stub_check_array(X, **kk)
        res = out
    elif no_x and not no_y:
        res = _as_arr(y)
        out = None
    else:
        mo = check_params.get("multi_output", False)
        Xo, yo = _stub_check_X_y(X, y, multi_output=mo, **kk)
        out = Xo
        res = (Xo, yo)
    if not no_x:
        if reset:
            self.n_features_in_ = out.shape[1] if out.ndim == 2 else None
        elif hasattr(self, "n_features_in_") and out.ndim == 2 and out.shape[1] != self.n_features_in_:
            raise ValueError(f"X has {out.shape[1]} features, but {self.__class__.__name__} is expecting {self.n_features_in_} features as input.")
    return res


def _stub_check_sample_weight(sample_weight, X, dtype=None, copy=False, only_non_negative=False):
    if not is_sym(X) and not is_sym(sample_weight):
        from sklearn.utils.validation import _check_sample_weight as real

        return real(sample_weight, X, dtype=dtype, copy=copy, only_non_negative=only_non_negative)
    n = X.shape[0]
    if sample_weight is None:
        return arrays.ones(n)
    if isinstance(sample_weight, (int, float)):
        return arrays.full(n, float(sample_weight))
    sw = sample_weight if is_sym(sample_weight) else arrays.sym(_np.asarray(sample_weight, dtype=float))
    if sw.ndim != 1:
        raise ValueError("Sample weights must be 1D array or scalar")
    if sw.shape != (n,):
        raise ValueError("sample_weight.shape == {}, expected {}!".format(sw.shape, (n,)))
    if copy:
        sw = sw.copy()
    return sw


def _stub_as_float_array(X, *, copy=True, **k):
    if is_sym(X):
        return X.copy() if copy else X
    from sklearn.utils import as_float_array as real

    return real(X, copy=copy, **k)


def _stub_column_or_1d(y, **k):
    if is_sym(y):
        if y.ndim == 1:
            return y
        if y.ndim == 2 and y.shape[1] == 1:
            return y.reshape(-1)
        raise ValueError("y should be a 1d array")
    from sklearn.utils import column_or_1d as real

    return real(y, **k)


SK_STUBS = {
    "check_array": _stub_check_array,
    "check_X_y": _stub_check_X_y,
    "_check_sample_weight": _stub_check_sample_weight,
    "as_float_array": _stub_as_float_array,
    "column_or_1d": _stub_column_or_1d,
}

_REAL = {}


@contextlib.contextmanager
def patched(modnames, extra=None, linalg_stubs=None, np_extra=None):
    """Patch module globals of the named skmatter modules for the duration of a
    symbolic run.  `extra`: {modname: {global: replacement}} (or {'*': {...}})."""
    import sklearn.base

    extra = extra or {}
    shim = arrays.NpShim(linalg_stubs=linalg_stubs, extra=np_extra)
    saved = []
    mods = [importlib.import_module(m) for m in modnames]
    for m in mods:
        repl = {}
        if hasattr(m, "np"):
            repl["np"] = shim
        for name, fn in SK_STUBS.items():
            if hasattr(m, name):
                repl[name] = fn
        for name, fn in extra.get("*", {}).items():
            if hasattr(m, name):
                repl[name] = fn
        for name, fn in extra.get(m.__name__, {}).items():
            repl[name] = fn
        for name, fn in repl.items():
            saved.append((m, name, getattr(m, name, _MISSING)))
            setattr(m, name, fn)
    _REAL["_validate_data"] = sklearn.base.BaseEstimator._validate_data
    sklearn.base.BaseEstimator._validate_data = _stub_validate_data
    try:
        yield shim
    finally:
        sklearn.base.BaseEstimator._validate_data = _REAL["_validate_data"]
        for m, name, old in reversed(saved):
            if old is _MISSING:
                delattr(m, name)
            else:
                setattr(m, name, old)


_MISSING = object()


REPO_SRC = os.environ.get("SYMX_REPO_SRC", "/repo/src").rstrip("/") + "/"


def assert_repo_source():
    """the analysed code must be the repository's current working tree (or, for mutant trials only,
    the scratch worktree named by SYMX_REPO_SRC)"""
    import skmatter

    assert skmatter.__file__.startswith(REPO_SRC), (skmatter.__file__, REPO_SRC)
