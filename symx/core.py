"""symx core: exact symbolic reals, path exploration by re-execution, SMT tiers.

Scalars are canonical rational functions over Q (sympy FracField) in input symbols
and *atoms* (sqrt / ite / int / uninterpreted), each atom carrying a defining
constraint that is part of the path condition.  Control flow on symbolic
conditions goes through Ctx.decide(), which asks the solver tiers which
alternatives are feasible, follows one and queues the others (DFS by re-execution).

Only `Exception` may be caught by analysed code or harnesses; the engine's own
control-flow signals derive from BaseException.
"""
from __future__ import annotations

import itertools
import os
import sys
import time
from fractions import Fraction

import z3
from sympy.polys.domains import QQ
from sympy.polys.fields import FracField
from sympy.polys.orderings import lex

# --------------------------------------------------------------------------- signals


class _Signal(BaseException):
    pass


class PathAbort(_Signal):
    """Path ended early (event such as division by zero, or an assumption failed)."""

    def __init__(self, kind, info=""):
        super().__init__(kind, info)
        self.kind = kind
        self.info = info


class PoolExhausted(_Signal):
    pass


class Unsupported(_Signal):
    """Analysed code tried to concretise a symbolic value (fail closed)."""


class Inconclusive(_Signal):
    pass


# --------------------------------------------------------------------------- context

CTX = None  # current path context


def ctx():
    if CTX is None:
        raise RuntimeError("no symx context active")
    return CTX


_FIELD_CACHE = {}
_SUBRINGS = {}


def _get_field(pool):
    if pool not in _FIELD_CACHE:
        names = [f"v{i}" for i in range(pool)]
        F = FracField(names, QQ, lex)
        _FIELD_CACHE[pool] = F
    return _FIELD_CACHE[pool]


def to_fraction(c):
    if isinstance(c, Fraction):
        return c
    if isinstance(c, bool):
        return Fraction(int(c))
    if isinstance(c, int):
        return Fraction(c)
    if isinstance(c, float):
        if c != c or c in (float("inf"), float("-inf")):
            raise ValueError("non-finite constant")
        return Fraction(repr(float(c)))
    if hasattr(c, "numerator") and hasattr(c, "denominator"):
        return Fraction(int(c.numerator), int(c.denominator))
    try:
        import numpy as _np

        if isinstance(c, _np.generic):
            return to_fraction(c.item())
    except ImportError:
        pass
    raise TypeError(f"cannot convert {type(c)} to exact rational")


def _is_num(c):
    if isinstance(c, (int, float, Fraction)):
        return True
    try:
        import numpy as _np

        return isinstance(c, (_np.integer, _np.floating, _np.bool_))
    except ImportError:
        return False


# --------------------------------------------------------------------------- formulas


class Formula:
    """Boolean formula over polynomial relations.  kinds: rel, and, or, not, const"""

    __slots__ = ("kind", "a", "b", "_key")

    def __init__(self, kind, a=None, b=None):
        self.kind = kind
        self.a = a
        self.b = b
        self._key = None

    # --- construction helpers
    @staticmethod
    def const(v):
        return TRUE if v else FALSE

    @staticmethod
    def rel(p, op):
        """p: PolyElement, op in {'>0','>=0','==0','!=0'}"""
        if p.is_ground:
            c = p.LC if p else 0
            v = {">0": c > 0, ">=0": c >= 0, "==0": c == 0, "!=0": c != 0}[op]
            return TRUE if v else FALSE
        cont = p.content()
        if cont != 1:
            p = p.quo_ground(cont)
        if op in ("==0", "!=0") and p.LC < 0:
            p = -p
        return Formula("rel", p, op)

    def key(self):
        if self._key is None:
            k = self.kind
            if k == "rel":
                self._key = ("rel", self.b, tuple(sorted(self.a.items())))
            elif k == "const":
                self._key = ("const", self.a)
            elif k == "not":
                self._key = ("not", self.a.key())
            else:
                self._key = (k, tuple(sorted(f.key() for f in self.a)))
        return self._key

    def __invert__(self):
        k = self.kind
        if k == "const":
            return FALSE if self.a else TRUE
        if k == "rel":
            p, op = self.a, self.b
            if op == ">0":
                return Formula.rel(-p, ">=0")
            if op == ">=0":
                return Formula.rel(-p, ">0")
            if op == "==0":
                return Formula.rel(p, "!=0")
            return Formula.rel(p, "==0")
        if k == "not":
            return self.a
        if k == "and":
            return f_or(*[~f for f in self.a])
        if k == "or":
            return f_and(*[~f for f in self.a])
        raise AssertionError

    def __and__(self, o):
        return f_and(self, _as_formula(o))

    __rand__ = __and__

    def __or__(self, o):
        return f_or(self, _as_formula(o))

    __ror__ = __or__

    def __bool__(self):
        if self.kind == "const":
            return self.a
        return ctx().branch(self)

    def __repr__(self):
        k = self.kind
        if k == "const":
            return str(self.a)
        if k == "rel":
            return f"({ctx().pretty(self.a) if CTX else self.a} {self.b})"
        if k == "not":
            return f"!{self.a!r}"
        return "(" + (" & " if k == "and" else " | ").join(map(repr, self.a)) + ")"


TRUE = Formula("const", True)
FALSE = Formula("const", False)


def _as_formula(o):
    if isinstance(o, Formula):
        return o
    if isinstance(o, SBool):
        return o.f
    if isinstance(o, (bool,)) or type(o).__name__ == "bool_":
        return TRUE if o else FALSE
    raise TypeError(f"not a formula: {type(o)}")


def f_and(*fs):
    out = []
    for f in fs:
        f = _as_formula(f)
        if f.kind == "const":
            if not f.a:
                return FALSE
            continue
        if f.kind == "and":
            out.extend(f.a)
        else:
            out.append(f)
    if not out:
        return TRUE
    if len(out) == 1:
        return out[0]
    return Formula("and", out)


def f_or(*fs):
    out = []
    for f in fs:
        f = _as_formula(f)
        if f.kind == "const":
            if f.a:
                return TRUE
            continue
        if f.kind == "or":
            out.extend(f.a)
        else:
            out.append(f)
    if not out:
        return FALSE
    if len(out) == 1:
        return out[0]
    return Formula("or", out)


def f_implies(a, b):
    return f_or(~_as_formula(a), b)


SBool = Formula  # symbolic booleans are formulas


# --------------------------------------------------------------------------- scalars


def _norm_pos(p):
    """normalised (poly, '>0') like Formula.rel does, without constant folding"""
    cont = p.content()
    if cont != 1 and cont != 0:
        p = p.quo_ground(cont)
    return p, ">0"


def _obviously_nonneg(p):
    """all coefficients positive and every generator with an odd exponent is known non-negative
    (declared nonneg inputs, sqrt atoms, nonneg ite atoms) => p >= 0 on the path"""
    nn = CTX.nn_gens if CTX is not None else ()
    for mon, c in p.items():
        if c < 0:
            return False
        for i, e in enumerate(mon):
            if e & 1 and i not in nn:
                return False
    return True


class SReal:
    """Exact symbolic real: canonical rational function over Q in the ctx's gens."""

    __slots__ = ("f", "nn")
    # no __array_ufunc__ / __array_priority__: numpy treats SReal as an object scalar, so
    # `ndarray <op> SReal` (also in-place) runs elementwise through the reflected methods

    def __init__(self, f, nn=False):
        self.f = f
        self.nn = nn  # known >= 0 by construction (squares, sums/products/quotients of such, sqrt atoms)

    # numpy: with __array_ufunc__ = None, `ndarray <op> SReal` returns NotImplemented
    # and Python calls SReal.__r<op>__(ndarray); we broadcast over object arrays there.

    # --- helpers
    @staticmethod
    def _isinf(o):
        return isinstance(o, float) and (o == float("inf") or o == float("-inf"))

    @staticmethod
    def lift(o):
        if isinstance(o, SReal):
            return o
        if _is_num(o):
            if isinstance(o, float) and (o != o or o in (float("inf"), float("-inf"))):
                return None
            try:
                import numpy as _np

                if isinstance(o, _np.floating) and not _np.isfinite(o):
                    return None
            except ImportError:
                pass
            return ctx().const(o)
        if type(o).__name__ in ("SymArray", "ndarray") and getattr(o, "ndim", 1) == 0:
            return SReal.lift(o[()])
        return None

    def is_const(self):
        return self.f.numer.is_ground and self.f.denom.is_ground

    def const_value(self):
        n, d = self.f.numer, self.f.denom
        nn = n.LC if n else QQ(0)
        return Fraction(int(nn.numerator), int(nn.denominator)) / Fraction(
            int(d.LC.numerator), int(d.LC.denominator)
        )

    def _arr(self, o, fn):
        import numpy as np

        if isinstance(o, np.ndarray):
            out = np.empty(o.shape, dtype=object)
            flat = out.reshape(-1)
            of = o.reshape(-1)
            for i in range(of.shape[0]):
                flat[i] = fn(of[i])
            from .arrays import SymArray

            return out.view(SymArray)
        return NotImplemented

    # --- arithmetic
    def __add__(self, o):
        if SReal._isinf(o):
            return o
        b = SReal.lift(o)
        if b is None:
            return self._arr(o, lambda e: self + e)
        return ctx().norm(self.f + b.f, self.nn and b.nn)

    __radd__ = __add__

    def __sub__(self, o):
        if SReal._isinf(o):
            return -o
        b = SReal.lift(o)
        if b is None:
            return self._arr(o, lambda e: self - e)
        return ctx().norm(self.f - b.f)

    def __rsub__(self, o):
        if SReal._isinf(o):
            return o
        b = SReal.lift(o)
        if b is None:
            return self._arr(o, lambda e: e - self)
        return ctx().norm(b.f - self.f)

    def __mul__(self, o):
        b = SReal.lift(o)
        if b is None:
            return self._arr(o, lambda e: self * e)
        c = ctx()
        if c.abs_of and self.f == b.f and self.f in c.abs_of:
            x = c.abs_of[self.f]
            return c.norm(x * x, True)
        return c.norm(self.f * b.f, (b is self) or (self.nn and b.nn) or (self.f == b.f))

    __rmul__ = __mul__

    def __neg__(self):
        return SReal(-self.f, self.nn and not self.f)

    def __pos__(self):
        return self

    def __truediv__(self, o):
        b = SReal.lift(o)
        if b is None:
            return self._arr(o, lambda e: self / e)
        ctx().require_nonzero(b)
        return ctx().norm(self.f / b.f, self.nn and b.nn)

    def __rtruediv__(self, o):
        b = SReal.lift(o)
        if b is None:
            return self._arr(o, lambda e: e / self)
        ctx().require_nonzero(self)
        return ctx().norm(b.f / self.f, self.nn and b.nn)

    def __pow__(self, e):
        if isinstance(e, SReal):
            if not e.is_const():
                raise Unsupported("symbolic exponent")
            e = e.const_value()
        e = to_fraction(e)
        if e.denominator == 1:
            k = int(e)
            if k >= 0:
                if k % 2 == 0 and ctx().abs_of and self.f in ctx().abs_of:
                    return ctx().norm(ctx().abs_of[self.f] ** k, True)
                return ctx().norm(self.f**k, self.nn or k % 2 == 0)
            ctx().require_nonzero(self)
            return ctx().norm((ctx().F.one / self.f) ** (-k), self.nn or k % 2 == 0)
        if e.denominator == 2:
            r = ssqrt(self)
            k = int(e.numerator)
            return r**k
        raise Unsupported(f"non-integer power {e}")

    def __abs__(self):
        return sabs(self)

    # --- comparisons -> formulas (or Python bools when decided syntactically)
    def _cmp(self, o, op, swap=False):
        b = SReal.lift(o)
        if b is None:
            if _is_num(o) and float(o) in (float("inf"), float("-inf")):
                o = float(o)
                # self vs +-inf
                pos = o > 0
                # self < inf ; self <= inf ; self > inf ...
                res = {"<": pos, "<=": pos, ">": not pos, ">=": not pos, "==": False, "!=": True}[op]
                if swap:
                    res = {"<": not pos, "<=": not pos, ">": pos, ">=": pos, "==": False, "!=": True}[op]
                return res
            return NotImplemented
        a = self
        if swap:
            a, b = b, a
        if op in ("<", "<="):
            d = ctx().norm(b.f - a.f)  # want d > 0 / >= 0
            rop = ">0" if op == "<" else ">=0"
        elif op in (">", ">="):
            d = ctx().norm(a.f - b.f)
            rop = ">0" if op == ">" else ">=0"
        else:
            d = ctx().norm(a.f - b.f)
            rop = "==0" if op == "==" else "!=0"
        if rop == ">=0" and ((op in ("<=",) and a.f == 0 and b.nn) or (op in (">=",) and b.f == 0 and a.nn)):
            return True
        if rop == ">0" and ((op == "<" and b.f == 0 and a.nn) or (op == ">" and a.f == 0 and b.nn)):
            return False
        fm = ctx().rel_of(d, rop)
        if fm.kind == "const":
            return fm.a
        return fm

    def __lt__(self, o):
        return self._cmp(o, "<")

    def __le__(self, o):
        return self._cmp(o, "<=")

    def __gt__(self, o):
        return self._cmp(o, ">")

    def __ge__(self, o):
        return self._cmp(o, ">=")

    def __eq__(self, o):
        r = self._cmp(o, "==")
        return r

    def __ne__(self, o):
        return self._cmp(o, "!=")

    __hash__ = object.__hash__

    # --- fail closed on concretisation
    def _concrete(self, what):
        if self.is_const():
            return self.const_value()
        raise Unsupported(f"{what}() of symbolic value {self!r}")

    def __float__(self):
        return float(self._concrete("float"))

    def __int__(self):
        v = self._concrete("int")
        return int(v)

    def __index__(self):
        v = self._concrete("index")
        if v.denominator != 1:
            raise TypeError("non-integer index")
        return int(v)

    def __bool__(self):
        r = self != 0
        return bool(r)

    def __repr__(self):
        try:
            return f"S[{ctx().pretty_frac(self.f)}]"
        except Exception:
            return f"S[{self.f}]"

    # numpy calls these on object arrays
    def sqrt(self):
        return ssqrt(self)

    def conjugate(self):
        return self

    @property
    def real(self):
        return self

    @property
    def imag(self):
        return ctx().const(0)


import numbers as _numbers

_numbers.Real.register(SReal)  # `isinstance(x, numbers.Real)` checks of hyper-parameters accept symbolic reals


def ssqrt(x):
    x = SReal.lift(x)
    return ctx().sqrt(x)


def sabs(x):
    x = SReal.lift(x)
    if x.nn:
        return x
    c = x >= 0
    if c is True:
        return x
    if c is False:
        r = -x
        r.nn = True
        return r
    t = ctx().ite(c, x, -x)
    if not t.nn:
        t = SReal(t.f, True)
        n = t.f.numer
        if t.f.denom.is_ground and len(n) == 1 and sum(n.LM) == 1 and n.LC == 1:
            ctx()._nn_add(n.LM.index(1))  # the ite atom itself is the absolute value
            ctx().abs_of[t.f] = x.f  # |x|^2 is rewritten to x^2
    return t


def cross_eq(x, y):
    """formula x == y for rational functions decided by cross-multiplication of numerators and
    denominators (polynomial products only - no gcd on the big operands)"""
    c = ctx()
    x, y = SReal.lift(x), SReal.lift(y)
    p = x.f.numer * y.f.denom - y.f.numer * x.f.denom
    if c.sqrt_gens and c._needs_reduce(p):
        p = c._reduce_sqrt(p).numer
    if c.defs and p:
        p = c.unfold(p)  # only if the identity does not already hold at the level of the named atoms
    return Formula.rel(p, "==0")


def cross_eq_folded(x, y):
    """x == y as a relation over the named atoms (no unfolding): used to add an identity that was proved with unfolding
    to the path condition as a lemma the linear abstraction can use"""
    c = ctx()
    x, y = SReal.lift(x), SReal.lift(y)
    p = x.f.numer * y.f.denom - y.f.numer * x.f.denom
    if c.sqrt_gens and c._needs_reduce(p):
        p = c._reduce_sqrt(p).numer
    return Formula.rel(p, "==0")


def cross_prod_is_one(x, y):
    """formula x * y == 1 by cross-multiplication"""
    c = ctx()
    x, y = SReal.lift(x), SReal.lift(y)
    p = x.f.numer * y.f.numer - x.f.denom * y.f.denom
    if c.sqrt_gens and c._needs_reduce(p):
        p = c._reduce_sqrt(p).numer
    if c.defs and p:
        p = c.unfold(p)  # only if the identity does not already hold at the level of the named atoms
    return Formula.rel(p, "==0")


def smin(a, b):
    return ctx().smin(a, b)


def smax(a, b):
    return ctx().smax(a, b)


# --------------------------------------------------------------------------- stats


class Stats:
    def __init__(self):
        self.q = {}  # (tier, result) -> count
        self.solver_s = 0.0
        self.paths = 0
        self.decisions = 0
        self.obligations = 0
        self.t0 = 0
        self.events = {}
        self.unknown_obligations = 0
        self.feas_unknown = 0

    def add(self, tier, res):
        self.q[(tier, res)] = self.q.get((tier, res), 0) + 1

    def merge(self, o):
        for k, v in o.q.items():
            self.q[k] = self.q.get(k, 0) + v
        self.solver_s += o.solver_s
        self.paths += o.paths
        self.decisions += o.decisions
        self.obligations += o.obligations
        self.t0 += o.t0
        self.unknown_obligations += o.unknown_obligations
        self.feas_unknown += o.feas_unknown
        for k, v in o.events.items():
            self.events[k] = self.events.get(k, 0) + v

    def as_dict(self):
        return {
            "queries": {f"{t}:{r}": n for (t, r), n in sorted(self.q.items())},
            "solver_s": round(self.solver_s, 3),
            "paths": self.paths,
            "decisions": self.decisions,
            "obligations": self.obligations,
            "obligations_T0": self.t0,
            "obligations_unknown": self.unknown_obligations,
            "feasibility_unknown_assumed_feasible": self.feas_unknown,
            "events": dict(self.events),
        }


# --------------------------------------------------------------------------- path ctx


class Ctx:
    """State of one symbolic path."""

    def __init__(self, engine, prefix):
        self.engine = engine
        self.pool = engine.pool
        self.F = _get_field(self.pool)
        self.R = self.F.ring
        self.gens = self.F.gens
        self.nvars = 0
        self.vinfo = []  # per gen: dict(kind=..., name=..., ...)
        self.prefix = list(prefix)
        self.trace = []  # decisions taken on this path
        self.pc = []  # list of Formula (assumptions, decisions, atom definitions)
        self.pc_keys = set()
        self.nonzero_keys = set()
        self.pos_keys = set()
        self.atom_cache = {}
        self.sqrt_gens = {}  # gen index -> radicand PolyElement
        self.stats = engine.stats
        self.inputs = {}  # name -> gen index
        self.events = []
        self.notes = []
        self._s1 = None
        self._s1n_defs = 0
        self._s3 = None
        self._s3n = 0
        self._z3vars = {}
        self._monovars = {}
        self._uf = {}
        self.int_gens = set()
        self.last_model = None
        self.obligation_log = []
        self.abs_of = {}  # FracElement of an |x| ite atom -> x
        self.defs = {}  # named atoms: gen -> FracElement definition
        self.def_eqs = []
        self._mono_axioms = []
        self._late_axioms = []
        self._s1_depth = 0
        self.nn_gens = set()  # gens known >= 0 by declaration / construction
        self.elim = {}  # gen index -> PolyElement (closed: no eliminated gen occurs on the right)
        self.elim_eqs = []  # raw defining equalities of eliminated gens (kept for models)
        self._subs_cache = {}
        self._resimp = False
        self._in_resimp = False
        self._has_compound = False
        self._is_clone = False

    # ---------------------------------------------------------------- symbols
    def _new_gen(self, info):
        if self.nvars >= self.pool:
            raise PoolExhausted()
        i = self.nvars
        self.nvars += 1
        self.vinfo.append(info)
        return i

    def const(self, c):
        fr = to_fraction(c)
        return SReal(self.F.ground_new(QQ(fr.numerator, fr.denominator)), fr >= 0)

    def sym(self, name, nonneg=False, positive=False):
        i = self._new_gen({"kind": "input", "name": name})
        self.inputs[name] = i
        r = SReal(self.gens[i], nonneg or positive)
        if positive:
            self._add_pc(Formula.rel(self.gens[i].numer, ">0"))
        if nonneg or positive:
            self._nn_add(i)
        return r

    def _nn_add(self, i):
        """gen i is >= 0: an axiom handed to every solver (not a path-condition entry, because
        the simplifier treats `gen >= 0` as trivially true once the gen is registered)"""
        self.nn_gens.add(i)
        if self._s1 is not None:
            self._s1.add(self._zv(i) >= 0)

    def pretty(self, p):
        s = str(p)
        return s

    def pretty_frac(self, f):
        return str(f)

    def var_name(self, i):
        info = self.vinfo[i]
        return info.get("name") or f"{info['kind']}{i}"

    # ---------------------------------------------------------------- normal forms
    def norm(self, f, nn=False):
        """wrap a FracElement; reduce squares of sqrt atoms (r^2 -> radicand) in numerator/denominator"""
        if self.sqrt_gens:
            n, d = f.numer, f.denom
            if self._needs_reduce(n) or self._needs_reduce(d):
                f = self._reduce_sqrt(n) / self._reduce_sqrt(d)
        return SReal(f, nn)

    def _reduce_sqrt(self, p):
        """polynomial -> field element with every r^(2k) replaced by radicand^k"""
        out = self.F.zero
        for mon, c in p.items():
            m = list(mon)
            extra = None
            for g, rad in self.sqrt_gens.items():
                e = m[g]
                if e >= 2:
                    m[g] = e & 1
                    t = rad ** (e >> 1)
                    extra = t if extra is None else extra * t
            term = self.F(self.R.term_new(tuple(m), c))
            if extra is not None:
                term = term * extra
            out = out + term
        n, d = out.numer, out.denom
        if self._needs_reduce(n) or self._needs_reduce(d):
            return self._reduce_sqrt(n) / self._reduce_sqrt(d)
        return out

    def _needs_reduce(self, p):
        for g in self.sqrt_gens:
            for mon in p:
                if mon[g] >= 2:
                    return True
        return False

    def rel_of(self, d, op):
        """relation `d op` for SReal d (a rational function): clear the denominator."""
        n, q = d.f.numer, d.f.denom
        if op in ("==0", "!=0"):
            if self.defs and not n.is_ground and n:
                n = self.unfold(n)
            return Formula.rel(n, op)
        if q.is_ground:
            return Formula.rel(n if q.LC > 0 else -n, op)
        s = self.sign_known(q)
        if s > 0:
            return Formula.rel(n, op)
        if s < 0:
            return Formula.rel(-n, op)
        return Formula.rel(n * q, op)

    # ---- abstraction by naming --------------------------------------------------------------
    def name(self, x, label="t"):
        """replace a (large) scalar by a fresh atom u with the recorded definition u := x.
        An identity that holds for arbitrary values of named quantities holds for the actual ones; equality tests
        unfold the definitions (pure polynomial arithmetic, no gcd); inequalities see u*den == num as a constraint."""
        x = SReal.lift(x)
        if x.is_const():
            return x
        n = x.f.numer
        if x.f.denom.is_ground and len(n) == 1 and sum(n.LM) == 1:
            return x  # already a single generator
        key = ("def", x.f)
        if key in self.atom_cache:
            return self.atom_cache[key]
        i = self._new_gen({"kind": "def", "name": f"{label}{self.nvars}", "def": x.f})
        self.defs[i] = x.f
        u = SReal(self.gens[i], x.nn)
        if x.nn:
            self._nn_add(i)
        self.atom_cache[key] = u
        g = self.gens[i].numer
        self.def_eqs.append(Formula("rel", g * x.f.denom - x.f.numer, "==0"))
        return u

    def unfold(self, p):
        """polynomial p with named atoms -> polynomial numerator over the base generators
        (denominators of the definitions are nonzero on the path and are multiplied through)"""
        if not self.defs:
            return p
        for g in sorted(self.defs, reverse=True):
            deg = 0
            for mon in p:
                if mon[g] > deg:
                    deg = mon[g]
            if deg == 0:
                continue
            fd = self.defs[g]
            num, den = fd.numer, fd.denom
            npow = [self.R.one]
            dpow = [self.R.one]
            for _ in range(deg):
                npow.append(npow[-1] * num)
                dpow.append(dpow[-1] * den)
            buckets = {}
            for mon, c in p.items():
                e = mon[g]
                m = list(mon)
                m[g] = 0
                buckets.setdefault(e, []).append((tuple(m), c))
            out = self.R.zero
            for e, terms in buckets.items():
                part = self.R.from_dict(dict(terms))
                out = out + part * npow[e] * dpow[deg - e]
            p = out
        if self.sqrt_gens and self._needs_reduce(p):
            p = self._reduce_sqrt(p).numer
        return p

    def _pkey(self, p):
        cont = p.content()
        if cont != 1:
            p = p.quo_ground(cont)
        return tuple(sorted(p.items()))

    def sign_known(self, q):
        """+1 if polynomial q is known positive on this path, -1 if negative, else 0
        (only for nonzero-by-construction denominators)."""
        if q.is_ground:
            return 1 if q.LC > 0 else -1
        if _obviously_nonneg(q):
            return 1
        if _obviously_nonneg(-q):
            return -1
        k = self._pkey(q)
        if k in self.pos_keys:
            return 1
        k2 = self._pkey(-q)
        if k2 in self.pos_keys:
            return -1
        return 0

    # ---------------------------------------------------------------- assumptions / pc
    # ---- equational reasoning: linear equalities are eliminated by substitution -----------
    def _subs(self, p):
        if not self.elim:
            return p
        k = id(p)
        hit = self._subs_cache.get(k)
        if hit is not None and hit[0] is p:
            return hit[1]
        q = p
        for g, e in self.elim.items():
            occurs = False
            for mon in q:
                if mon[g]:
                    occurs = True
                    break
            if occurs:
                q = q.compose(self.R.gens[g], e)
        self._subs_cache[k] = (p, q)
        return q

    def _unit_value(self, g):
        """truth value of relation g forced by unit relations of the path condition, else None"""
        ks = self.pc_keys
        if g.key() in ks:
            return True
        q, op = g.a, g.b
        if (~g).key() in ks:
            return False
        if op in (">=0", ">0"):
            pos = Formula("rel", *_norm_pos(q)).key() in ks  # q > 0
            neg = Formula("rel", *_norm_pos(-q)).key() in ks  # q < 0
            zero = Formula.rel(q, "==0").key() in ks
            if op == ">=0":
                if pos or zero:
                    return True
                if neg:
                    return False
            else:
                if pos:
                    return True
                if neg or zero:
                    return False
        else:
            pos = Formula("rel", *_norm_pos(q)).key() in ks
            neg = Formula("rel", *_norm_pos(-q)).key() in ks
            if pos or neg:
                return op == "!=0"
        return None

    def simplify(self, f, top=True):
        k = f.kind
        if k == "const":
            return f
        if k == "rel":
            p = self._subs(f.a)
            if p is f.a:
                g = f
            else:
                g = Formula.rel(p, f.b)
            if g.kind == "rel":
                q, op = g.a, g.b
                if op == ">=0" and _obviously_nonneg(q):
                    return TRUE
                if op == ">0":
                    if _obviously_nonneg(-q):
                        return FALSE
                    if _obviously_nonneg(q) and q.coeff(1) > 0:
                        return TRUE
                if op == "!=0" and ((_obviously_nonneg(q) and q.coeff(1) > 0) or (_obviously_nonneg(-q) and q.coeff(1) < 0)):
                    return TRUE
                if op == "==0" and ((_obviously_nonneg(q) and q.coeff(1) > 0) or (_obviously_nonneg(-q) and q.coeff(1) < 0)):
                    return FALSE
                if not top:
                    v = self._unit_value(g)
                    if v is not None:
                        return TRUE if v else FALSE
            return g
        if k == "not":
            return ~self.simplify(f.a, False)
        if k == "and":
            return f_and(*[self.simplify(g, top) for g in f.a])
        return f_or(*[self.simplify(g, False) for g in f.a])

    def _try_eliminate(self, p):
        """p == 0 known. If p is linear in some gen with a constant coefficient and the rest is of
        total degree <= 1 (or the gen is an ite/uf atom), eliminate that gen. Returns True if done."""
        if p.is_ground:
            return False
        degs = p.degrees()
        total = max(sum(m) for m in p)
        best = None
        for g, d in enumerate(degs):
            if d != 1 or g in self.sqrt_gens or g in self.int_gens:
                continue
            # coefficient of gen g must be a constant: exactly one monomial contains g, and it is g itself
            mons = [m for m in p if m[g]]
            if len(mons) != 1 or sum(mons[0]) != 1:
                continue
            kind = self.vinfo[g]["kind"]
            if total > 1 and kind == "input":
                continue
            # prefer atoms, then the highest index
            score = (kind != "input", g)
            if best is None or score > best[0]:
                best = (score, g, mons[0])
        if best is None:
            return False
        _, g, mon = best
        c = p[mon]
        rest = p - self.R.term_new(mon, c)
        e = rest.quo_ground(-c)  # g = -rest/c
        # close the substitution
        for h in list(self.elim):
            eh = self.elim[h]
            if any(m[g] for m in eh):
                self.elim[h] = eh.compose(self.R.gens[g], e)
        self.elim[g] = e
        self.elim_eqs.append(Formula("rel", self.R.gens[g] - e, "==0"))
        self._subs_cache = {}
        self._s1 = None
        self._s3 = None
        self._monovars = {}
        self._mono_axioms = []
        self._late_axioms = []
        self._resimp = True
        return True

    def _psd_forms(self, p):
        """if quadratic polynomial p is a PSD form in (x,1): return list of linear polys l_k with
        p = sum d_k l_k^2, d_k > 0; else None"""
        if max(sum(m) for m in p) != 2:
            return None
        vars_ = sorted({i for m in p for i, e in enumerate(m) if e})
        k = len(vars_)
        pos = {v: i for i, v in enumerate(vars_)}
        G = [[Fraction(0)] * (k + 1) for _ in range(k + 1)]
        for m, c in p.items():
            c = Fraction(int(c.numerator), int(c.denominator))
            idx = [pos[i] for i, e in enumerate(m) for _ in range(e)]
            while len(idx) < 2:
                idx.append(k)
            i, j = idx
            if i == j:
                G[i][i] += c
            else:
                G[i][j] += c / 2
                G[j][i] += c / 2
        n = k + 1
        forms = []
        A = [row[:] for row in G]
        for i in range(n):
            d = A[i][i]
            if d < 0:
                return None
            if d == 0:
                if any(A[i][j] != 0 for j in range(n)):
                    return None
                continue
            l = [A[i][j] / d for j in range(n)]  # l_i = x_i + sum_{j>i} l_j x_j
            forms.append((d, l))
            for a in range(n):
                for b in range(n):
                    if a != i and b != i:
                        A[a][b] -= A[a][i] * A[i][b] / d
            for j in range(n):
                A[i][j] = Fraction(0)
                A[j][i] = Fraction(0)
        out = []
        for d, l in forms:
            q = self.R.zero
            for j, cj in enumerate(l):
                if cj == 0:
                    continue
                cq = QQ(cj.numerator, cj.denominator)
                if j == k:
                    q = q + self.R.ground_new(cq)
                else:
                    q = q + self.R.gens[vars_[j]] * cq
            out.append(q)
        return out

    def _derive(self, f):
        """equalities implied by a single relation"""
        if f.kind != "rel":
            return
        p, op = f.a, f.b
        if op == "==0":
            if self._try_eliminate(p):
                return
            for sgn in (1, -1):
                forms = self._psd_forms(p if sgn > 0 else -p)
                if forms:
                    for l in forms:
                        self._add_pc(Formula.rel(l, "==0"))
                    return
        elif op == ">=0":
            if Formula.rel(-p, ">=0").key() in self.pc_keys:
                self._add_pc(Formula.rel(p, "==0"))
                return
            forms = self._psd_forms(-p)
            if forms:
                for l in forms:
                    self._add_pc(Formula.rel(l, "==0"))
        elif op == ">0":
            forms = self._psd_forms(-p)
            if forms is not None:
                raise PathAbort("infeasible", "negated sum of squares > 0")

    def _add_pc(self, f):
        f = self.simplify(f)
        if f.kind == "const":
            if not f.a:
                raise PathAbort("infeasible", "assumed False")
            return
        if f.kind == "and":
            for g in f.a:
                self._add_pc(g)
            return
        k = f.key()
        if k in self.pc_keys:
            return
        self.pc_keys.add(k)
        self.pc.append(f)
        if f.kind == "rel":
            if f.b == "!=0":
                self.nonzero_keys.add(self._pkey(f.a))
            elif f.b == ">0":
                self.pos_keys.add(self._pkey(f.a))
                self.nonzero_keys.add(self._pkey(f.a))
        if self._s1 is not None:
            self._s1.add(self._abs(f))
        self._derive(f)
        if f.kind == "rel" and self._has_compound:
            self._resimp = True
        elif f.kind != "rel":
            self._has_compound = True
        if self._resimp and not self._in_resimp:
            self._resimplify()

    def _resimplify(self):
        """after a new elimination / unit: re-simplify the path condition to a fixpoint"""
        self._in_resimp = True
        try:
            rounds = 0
            while self._resimp and rounds < 50:
                rounds += 1
                self._resimp = False
                old = self.pc
                units = [g for g in old if g.kind == "rel"]
                comp = [g for g in old if g.kind != "rel"]
                self.pc = []
                self.pc_keys = set()
                self._s1 = None
                self._s3 = None
                self._s3n = 0
                self._has_compound = False
                changed = False
                for g in units + comp:
                    g2 = self.simplify(g)
                    if g2.kind == "const":
                        if not g2.a:
                            raise PathAbort("infeasible", "contradiction after substitution")
                        changed = True
                        continue
                    if g2.key() != g.key():
                        changed = True
                    for h in (g2.a if g2.kind == "and" else [g2]):
                        kk = h.key()
                        if kk in self.pc_keys:
                            continue
                        self.pc_keys.add(kk)
                        self.pc.append(h)
                        if h.kind == "rel":
                            if h.b == "!=0":
                                self.nonzero_keys.add(self._pkey(h.a))
                            elif h.b == ">0":
                                self.pos_keys.add(self._pkey(h.a))
                                self.nonzero_keys.add(self._pkey(h.a))
                        else:
                            self._has_compound = True
                if changed:
                    for h in list(self.pc):
                        if h.kind == "rel" and h.key() in self.pc_keys:
                            self._derive(h)
                    if any(h.kind == "rel" and h not in units for h in self.pc):
                        self._resimp = True
        finally:
            self._in_resimp = False

    def clone(self):
        """copy of the path state for case splits inside an obligation"""
        c = Ctx.__new__(Ctx)
        c.__dict__.update(self.__dict__)
        for name in ("vinfo", "trace", "pc", "elim_eqs", "events", "notes", "def_eqs"):
            setattr(c, name, list(getattr(self, name)))
        for name in ("pc_keys", "nonzero_keys", "pos_keys", "int_gens", "nn_gens"):
            setattr(c, name, set(getattr(self, name)))
        for name in ("atom_cache", "sqrt_gens", "inputs", "elim", "_z3vars", "_monovars", "defs", "abs_of"):
            setattr(c, name, dict(getattr(self, name)))
        c._uf = {k: list(v) for k, v in self._uf.items()}
        c._ufc_cache = None
        c._subs_cache = {}
        c._s1 = None
        c._s3 = None
        c._s3n = 0
        c._s1_depth = 0
        c._mono_axioms = list(self._mono_axioms)
        c._late_axioms = []
        c._is_clone = True
        return c

    def assume(self, f):
        """Harness precondition. Aborts the path if it contradicts the path condition."""
        f = self.simplify(_as_formula(f))
        if f.kind == "const":
            if not f.a:
                raise PathAbort("assume-false", "")
            return
        r = self.check_sat([f], purpose="feas")
        if r == "unsat":
            raise PathAbort("assume-false", "")
        self._add_pc(f)

    def assume_nonneg(self, x):
        """assume x >= 0 and return x flagged non-negative"""
        x = SReal.lift(x)
        self.assume(x >= 0)
        return SReal(x.f, True)

    def known(self, f):
        """is formula syntactically implied by the path condition?"""
        f = self.simplify(f)
        if f.kind == "const":
            return f.a
        if f.key() in self.pc_keys:
            return True
        if f.kind == "rel":
            p, op = f.a, f.b
            if op == ">=0":
                return Formula("rel", p, ">0").key() in self.pc_keys or Formula.rel(p, "==0").key() in self.pc_keys
            if op == "!=0":
                return Formula("rel", p, ">0").key() in self.pc_keys or Formula.rel(-p, ">0").key() in self.pc_keys
        return False

    # ---------------------------------------------------------------- atoms
    def require_nonzero(self, b):
        """divisor check: fork on b == 0; zero branch raises the div0 event."""
        n = b.f.numer
        if n.is_ground:
            if not n:
                self.event("div0", _where())
            return
        k = self._pkey(n)
        if k in self.nonzero_keys:
            return
        if _obviously_nonneg(n) and n.coeff(1) > 0:
            return
        if _obviously_nonneg(-n) and (-n).coeff(1) > 0:
            return
        nz = Formula.rel(n, "!=0")
        if self.branch(nz):
            self.nonzero_keys.add(k)
            return
        self.event("div0", _where())

    def event(self, kind, info=""):
        self.stats.events[kind] = self.stats.events.get(kind, 0) + 1
        self.events.append((kind, info))
        raise PathAbort(kind, info)

    def sqrt(self, x):
        n, q = x.f.numer, x.f.denom
        if n.is_ground and q.is_ground:
            v = x.const_value()
            if v < 0:
                self.event("sqrt-neg", _where())
            a, b = _isqrt_exact(v.numerator), _isqrt_exact(v.denominator)
            if a is not None and b is not None:
                return self.const(Fraction(a, b))
            # sqrt of a rational constant: algebraic constant atom over the squarefree part
            num = v.numerator * v.denominator  # sqrt(n/d) = sqrt(n*d)/d
            sq, sf = _square_part(num)
            g = self._sqrt_atom(self.F.ground_new(QQ(sf)))
            return self.norm(g.f * self.F.ground_new(QQ(sq, v.denominator)), True)
        # radicand must be >= 0 (skipped when known by construction)
        if not x.nn:
            ok = self.rel_of(x, ">=0")
            if not self.branch(ok):
                self.event("sqrt-neg", _where())
        if q.is_ground:
            return self._sqrt_poly(n.quo_ground(q.LC))
        return self._sqrt_ratio(n, q)

    def _split_squares(self, P):
        """P = c * outside^2 * inside with inside square-free (polynomials); c rational"""
        c, factors = self._sqf_list(P)
        c = Fraction(int(c.numerator), int(c.denominator))
        outside = self.R.one
        inside = self.R.one
        for fac, e in factors:
            if e >= 2:
                outside = outside * fac ** (e // 2)
            if e % 2 == 1:
                inside = inside * fac
        return c, outside, inside

    def _sqrt_ratio(self, n, q):
        """sqrt(n/q), n/q >= 0 known: pull square factors out of numerator and denominator"""
        cn, on, inn = self._split_squares(n)
        cq, oq, inq = self._split_squares(q)
        out = sabs(SReal(self.F(on))) / sabs(SReal(self.F(oq)))
        c = cn / cq
        inside = self.F(inn) / self.F(inq)
        if c < 0:
            inside = -inside
            c = -c
        if inside.numer.is_ground and inside.denom.is_ground:
            v = Fraction(int(inside.numer.LC.numerator), int(inside.numer.LC.denominator)) / Fraction(int(inside.denom.LC.numerator), int(inside.denom.LC.denominator))
            res = out * self.sqrt(self.const(c * v))
        else:
            # normalise the constant into c so that equal radicands share one atom
            k = inside.numer.content()
            kk = Fraction(int(k.numerator), int(k.denominator))
            inside = self.F(inside.numer.quo_ground(k)) / self.F(inside.denom)
            res = out * self._sqrt_atom(inside) * self.sqrt(self.const(c * kk))
        res.nn = True
        return res

    def _sqrt_poly(self, P):
        """sqrt of a polynomial known >= 0: pull out square factors."""
        if P.is_ground:
            return self.sqrt(SReal(self.F(P), True))
        c, factors = self._sqf_list(P)
        c = Fraction(int(c.numerator), int(c.denominator))
        outside = self.const(1)
        inside = self.R.one
        for fac, e in factors:
            if e >= 2:
                a = SReal(self.F(fac ** (e // 2)))
                a = sabs(a) if (e // 2) % 2 == 1 else a
                outside = outside * a
            if e % 2 == 1:
                inside = inside * fac
        if inside.is_ground:
            v = c * Fraction(int(inside.LC.numerator), int(inside.LC.denominator))
            return outside * self.sqrt(self.const(v))
        cont = inside.content()
        inside = inside.quo_ground(cont)
        c = c * Fraction(int(cont.numerator), int(cont.denominator))
        if c < 0:
            inside = -inside
            c = -c
        g = self._sqrt_atom(self.F(inside))
        res = outside * g * self.sqrt(self.const(c))
        res.nn = True
        return res

    def _sqf_list(self, P):
        """square-free factorisation in the sub-ring of the gens that occur (sympy's sqf_list goes
        through a dense representation, hopeless in the pooled ring); skipped for large radicands"""
        used = sorted({i for m in P for i, e in enumerate(m) if e})
        if not used:
            return (P.LC if P else QQ(0)), []
        if len(P) > 600 or len(used) > 12 or max(sum(m) for m in P) > 8:
            return QQ(1), [(P, 1)]
        from sympy.polys.rings import PolyRing

        key = tuple(used)
        R2 = _SUBRINGS.get(key)
        if R2 is None:
            R2 = PolyRing([f"v{i}" for i in used], QQ, lex)
            _SUBRINGS[key] = R2
        q = R2.from_dict({tuple(m[i] for i in used): c for m, c in P.items()})
        c, factors = q.sqf_list()
        out = []
        n = len(self.R.gens)
        for fac, e in factors:
            d = {}
            for m, cc in fac.items():
                full = [0] * n
                for j, i in enumerate(used):
                    full[i] = m[j]
                d[tuple(full)] = cc
            out.append((self.R.from_dict(d), e))
        return c, out

    def _sqrt_atom(self, rad):
        """rad: field element (known >= 0). atom r >= 0 with r^2 * den == num"""
        key = ("sqrt", rad)
        if key in self.atom_cache:
            return self.atom_cache[key]
        i = self._new_gen({"kind": "sqrt", "rad": rad})
        g = self.gens[i].numer
        self.sqrt_gens[i] = rad
        r = SReal(self.gens[i], True)
        self._nn_add(i)
        self.atom_cache[key] = r
        # r == 0 <=> radicand == 0 (consequence of r >= 0, r^2 * den == num)
        self._add_pc(f_or(Formula.rel(rad.numer, "==0"), Formula.rel(g, ">0")))
        self._add_pc(f_or(Formula.rel(rad.numer, "!=0"), Formula.rel(g, "==0")))
        self._add_pc(Formula("rel", g * g * rad.denom - rad.numer, "==0"))
        if rad.denom.is_ground and (self.sign_known(rad.numer) > 0 and rad.numer.coeff(1) > 0):
            self._add_pc(Formula.rel(g, ">0"))
        return r

    def ite(self, c, a, b):
        """atom t == (a if c else b); c Formula, a/b SReal"""
        c = _as_formula(c)
        if c.kind == "const":
            return a if c.a else b
        a = SReal.lift(a)
        b = SReal.lift(b)
        if (a.f - b.f) == 0:
            return a
        if self.known(c):
            return a
        if self.known(~c):
            return b
        key = ("ite", c.key(), a.f, b.f)
        if key in self.atom_cache:
            return self.atom_cache[key]
        i = self._new_gen({"kind": "ite", "c": c, "a": a, "b": b})
        t = SReal(self.gens[i], a.nn and b.nn)
        if a.nn and b.nn:
            self._nn_add(i)
        self.atom_cache[key] = t
        g = self.gens[i].numer
        da = g * a.f.denom - a.f.numer
        db = g * b.f.denom - b.f.numer
        self._add_pc(f_or(~c, Formula("rel", da, "==0")))
        self._add_pc(f_or(c, Formula("rel", db, "==0")))
        return t

    def smin(self, a, b):
        ia = isinstance(a, float) and a == float("inf")
        ib = isinstance(b, float) and b == float("inf")
        if ia:
            return b
        if ib:
            return a
        a = SReal.lift(a)
        b = SReal.lift(b)
        c = a <= b
        if c is True:
            return a
        if c is False:
            return b
        return self.ite(c, a, b)

    def smax(self, a, b):
        ia = isinstance(a, float) and a == float("-inf")
        ib = isinstance(b, float) and b == float("-inf")
        if ia:
            return b
        if ib:
            return a
        a = SReal.lift(a)
        b = SReal.lift(b)
        c = a >= b
        if c is True:
            return a
        if c is False:
            return b
        return self.ite(c, a, b)

    def int_atom(self, name="k"):
        i = self._new_gen({"kind": "int", "name": name})
        self.int_gens.add(i)
        return SReal(self.gens[i])

    def uf(self, fname, args, constraints=None):
        """uninterpreted-function atom u = fname(args); congruence via cache on arg terms"""
        key = ("uf", fname, tuple(SReal.lift(a).f for a in args))
        if key in self.atom_cache:
            return self.atom_cache[key]
        i = self._new_gen({"kind": "uf", "fname": fname, "args": list(args)})
        u = SReal(self.gens[i])
        self.atom_cache[key] = u
        self._uf.setdefault(fname, []).append((i, [SReal.lift(a) for a in args]))
        return u

    # ---------------------------------------------------------------- decisions
    def branch(self, cond):
        """bool() of a symbolic condition"""
        cond = self.simplify(_as_formula(cond))
        if cond.kind == "const":
            return cond.a
        if self.known(cond):
            return True
        nc = ~cond
        if self.known(nc):
            return False
        k = self.decide([cond, nc])
        return k == 0

    def decide(self, alts, labels=None):
        """choose one of the mutually exclusive alternatives `alts` (Formulas);
        returns the index followed on this path."""
        alts = [self.simplify(a) for a in alts]
        pos = len(self.trace)
        if pos < len(self.prefix):
            k = self.prefix[pos]
            self.trace.append(k)
            self._add_pc(alts[k])
            return k
        feas = []
        for i, a in enumerate(alts):
            if a.kind == "const":
                if a.a:
                    feas.append(i)
                continue
            r = self.check_sat([a], purpose="feas")
            if r != "unsat":
                feas.append(i)
        if not feas:
            # path condition itself infeasible (over-approximated earlier) -> drop
            raise PathAbort("infeasible", "no feasible alternative")
        self.stats.decisions += 1
        k = feas[0]
        for j in feas[1:]:
            self.engine.push(self.trace + [j])
        self.trace.append(k)
        self._add_pc(alts[k])
        return k

    # ---------------------------------------------------------------- solver tiers
    def _zv(self, i):
        v = self._z3vars.get(i)
        if v is None:
            v = z3.Int(f"v{i}") if i in self.int_gens else z3.Real(f"v{i}")
            if i in self.int_gens:
                v = z3.ToReal(v)
            self._z3vars[i] = v
        return v

    def _z3poly(self, p):
        terms = []
        for mon, c in p.items():
            t = z3.RealVal(f"{c.numerator}/{c.denominator}") if c.denominator != 1 else z3.RealVal(int(c.numerator))
            fs = []
            for i, e in enumerate(mon):
                if e:
                    v = self._zv(i)
                    fs.extend([v] * e)
            if fs:
                m = fs[0]
                for f in fs[1:]:
                    m = m * f
                t = t * m if c != 1 else m
            terms.append(t)
        if not terms:
            return z3.RealVal(0)
        return z3.Sum(terms) if len(terms) > 1 else terms[0]

    def _abspoly(self, p):
        """monomial abstraction: each nonlinear monomial becomes a fresh real"""
        terms = []
        for mon, c in p.items():
            cv = z3.RealVal(f"{c.numerator}/{c.denominator}") if c.denominator != 1 else z3.RealVal(int(c.numerator))
            deg = sum(mon)
            if deg == 0:
                terms.append(cv)
                continue
            if deg == 1:
                v = self._zv(mon.index(1))
            else:
                v = self._monovars.get(mon)
                if v is None:
                    v = z3.Real("m_" + "_".join(f"{i}^{e}" for i, e in enumerate(mon) if e))
                    self._monovars[mon] = v
                    if all(e % 2 == 0 or i in self.nn_gens for i, e in enumerate(mon)):
                        self._pending_mono_axioms.append(v >= 0)
            terms.append(cv * v)
        if not terms:
            return z3.RealVal(0)
        return z3.Sum(terms) if len(terms) > 1 else terms[0]

    def _tr(self, f, polyfn):
        k = f.kind
        if k == "const":
            return z3.BoolVal(f.a)
        if k == "rel":
            e = polyfn(f.a)
            return {">0": e > 0, ">=0": e >= 0, "==0": e == 0, "!=0": e != 0}[f.b]
        if k == "not":
            return z3.Not(self._tr(f.a, polyfn))
        if k == "and":
            return z3.And([self._tr(g, polyfn) for g in f.a])
        if k == "or":
            return z3.Or([self._tr(g, polyfn) for g in f.a])
        raise AssertionError

    def _z3(self, f):
        return self._tr(f, self._z3poly)

    def _abs(self, f):
        """abstracted formula; sign axioms of newly created monomial variables are asserted at the
        base level of the T1 solver (never inside a push frame, where they would be lost on pop)"""
        self._pending_mono_axioms = []
        e = self._tr(f, self._abspoly)
        if self._pending_mono_axioms:
            self._mono_axioms.extend(self._pending_mono_axioms)
            if self._s1 is not None:
                if self._s1_depth:
                    self._late_axioms.extend(self._pending_mono_axioms)
                    e = z3.And([e] + self._pending_mono_axioms)
                else:
                    for a in self._pending_mono_axioms:
                        self._s1.add(a)
        return e

    def _uf_constraints_z3(self):
        """congruence is handled by atom caching on identical argument terms; for
        semantically-equal-but-syntactically-different args add pairwise implications"""
        key = (sum(len(l) for l in self._uf.values()), len(self.elim))
        if getattr(self, "_ufc_cache", None) is not None and self._ufc_cache[0] == key:
            return self._ufc_cache[1]
        out = []
        for fname, lst in self._uf.items():
            for (i, ai), (j, aj) in itertools.combinations(lst, 2):
                if len(ai) != len(aj):
                    continue
                eqs = []
                for x, y in zip(ai, aj):
                    d = self.norm(x.f - y.f)
                    eqs.append(self._z3(Formula.rel(d.f.numer, "==0")))
                out.append(z3.Implies(z3.And(eqs), self._zv(i) == self._zv(j)))
        self._ufc_cache = (key, out)
        return out

    def _solver1(self):
        if self._s1 is None:
            s = z3.SolverFor("QF_LRA") if not self.int_gens else z3.Solver()
            for f in self.pc:
                s.add(self._abs(f))
            for i in self.nn_gens:
                s.add(self._zv(i) >= 0)
            for f in self.def_eqs:
                s.add(self._abs(f))
            self._s1n_defs = len(self.def_eqs)
            self._s1 = s
            for a in self._mono_axioms:
                s.add(a)
        return self._s1

    def _solver3(self, extra=()):
        """fresh non-incremental solver (so z3 runs its nlsat-based strategy, which the
        incremental core does not): path condition + eliminated-gen definitions + extra"""
        if self._s3 is None:
            self._s3 = []
            self._s3n = 0
        while self._s3n < len(self.pc):
            self._s3.append(self._z3(self.pc[self._s3n]))
            self._s3n += 1
        s = z3.Solver() if self.int_gens else z3.SolverFor("QF_NRA")
        for e in self._s3:
            s.add(e)
        for f in self.elim_eqs:
            s.add(self._z3(f))
        for f in self.def_eqs:
            s.add(self._z3(f))
        for i in self.nn_gens:
            s.add(self._zv(i) >= 0)
        for f in extra:
            s.add(self._z3(f))
        ufc = self._uf_constraints_z3()
        if ufc:
            s.add(ufc)
        return s

    def check_sat(self, extra, purpose="feas", want_model=False, timeout_ms=None):
        """is PC and extra satisfiable?  returns 'sat' | 'unsat' | 'unknown'.
        purpose 'feas': over-approximation allowed ('unknown' => caller assumes feasible).
        """
        eng = self.engine
        st = self.stats
        ex2 = []
        for f in extra:
            f = self.simplify(f)
            if f.kind == "const":
                if not f.a:
                    st.add("T0", "unsat")
                    return "unsat"
                continue
            if f.key() in self.pc_keys:
                continue
            if (~f).key() in self.pc_keys:
                st.add("T0", "unsat")
                return "unsat"
            ex2.append(f)
        extra = ex2
        t0 = time.time()
        try:
            # T1: monomial linear abstraction (sound for unsat only)
            s1 = self._solver1()
            while self._s1n_defs < len(self.def_eqs):
                s1.add(self._abs(self.def_eqs[self._s1n_defs]))
                self._s1n_defs += 1
            s1.push()
            self._s1_depth += 1
            try:
                for f in extra:
                    s1.add(self._abs(f))
                s1.set("timeout", eng.t1_ms)
                r1 = s1.check()
            finally:
                s1.pop()
                self._s1_depth -= 1
                if self._late_axioms and self._s1_depth == 0:
                    for a in self._late_axioms:
                        s1.add(a)
                    self._late_axioms = []
            if r1 == z3.unsat:
                st.add("T1", "unsat")
                return "unsat"
            st.add("T1", "nonunsat")
            if extra and not getattr(self, "_in_t1b", False):
                # T1b: add the query to a clone of the path so that equality elimination, SOS-derived
                # equalities and unit propagation also see it; retry the abstraction if that changed anything
                global CTX
                sub = self.clone()
                sub._in_t1b = True
                saved = CTX
                CTX = sub
                try:
                    n_el = len(sub.elim)
                    try:
                        for f in extra:
                            sub._add_pc(f)
                    except PathAbort:
                        st.add("T1b", "unsat")
                        return "unsat"
                    if len(sub.elim) != n_el:
                        s1b = sub._solver1()
                        s1b.set("timeout", eng.t1_ms)
                        if s1b.check() == z3.unsat:
                            st.add("T1b", "unsat")
                            return "unsat"
                        st.add("T1b", "nonunsat")
                finally:
                    CTX = saved
            if purpose == "feas" and not eng.confirm_feas:
                return "unknown"
            # T3: z3 nonlinear (fresh solver per query)
            s3 = self._solver3(extra)
            s3.set("timeout", timeout_ms or (eng.feas_ms if purpose in ("feas", "prove-quick") else eng.t3_ms))
            r3 = s3.check()
            if r3 == z3.sat:
                st.add("T3", "sat")
                self.last_model = s3.model()
                return "sat"
            if r3 == z3.unsat:
                st.add("T3", "unsat")
                return "unsat"
            st.add("T3", "unknown")
            if purpose == "feas":
                st.feas_unknown += 1
                return "unknown"
            if purpose == "prove-quick":
                return "unknown"
            # T2: cvc5 for unsat
            r2 = self._cvc5_check(extra, eng.t2_ms)
            st.add("T2", r2)
            return r2
        finally:
            st.solver_s += time.time() - t0

    def _cvc5_check(self, extra, tmo):
        try:
            import cvc5.pythonic as cp
        except Exception:
            return "unknown"
        if self.int_gens or self._uf:
            return "unknown"
        vars_ = {}

        def zv(i):
            if i not in vars_:
                vars_[i] = cp.Real(f"v{i}")
            return vars_[i]

        def poly(p):
            terms = []
            for mon, c in p.items():
                t = cp.RealVal(int(c.numerator)) / cp.RealVal(int(c.denominator)) if c.denominator != 1 else cp.RealVal(int(c.numerator))
                for i, e in enumerate(mon):
                    for _ in range(e):
                        t = t * zv(i)
                terms.append(t)
            if not terms:
                return cp.RealVal(0)
            out = terms[0]
            for t in terms[1:]:
                out = out + t
            return out

        def tr(f):
            k = f.kind
            if k == "const":
                return cp.BoolVal(f.a)
            if k == "rel":
                e = poly(f.a)
                return {">0": e > 0, ">=0": e >= 0, "==0": e == 0, "!=0": e != 0}[f.b]
            if k == "not":
                return cp.Not(tr(f.a))
            if k == "and":
                return cp.And(*[tr(g) for g in f.a])
            return cp.Or(*[tr(g) for g in f.a])

        try:
            s = cp.Solver()
            s.set("tlimit-per", int(tmo))
            for f in self.pc:
                s.add(tr(f))
            for f in self.elim_eqs:
                s.add(tr(f))
            for f in self.def_eqs:
                s.add(tr(f))
            for i in self.nn_gens:
                s.add(zv(i) >= 0)
            for f in extra:
                s.add(tr(f))
            r = s.check()
            rs = str(r)
            if rs == "unsat":
                return "unsat"
            if rs == "sat":
                return "sat-cvc5"
            return "unknown"
        except Exception:
            return "unknown"

    # ---------------------------------------------------------------- models
    def model_values(self, model=None):
        """input name -> Fraction (approximation if algebraic)"""
        m = model or self.last_model
        out = {}
        if m is None:
            return None
        for name, i in self.inputs.items():
            v = m.eval(z3.Real(f"v{i}"), model_completion=True)
            out[name] = _z3_to_fraction(v)
        return out

    def find_model(self, extra=(), timeout_ms=None):
        """try to get a genuine model of PC and extra (for witnesses / counterexamples)"""
        st = self.stats
        t0 = time.time()
        try:
            s3 = self._solver3([self.simplify(f) for f in extra])
            s3.set("timeout", timeout_ms or self.engine.t3_ms)
            r = s3.check()
            st.add("T3m", str(r))
            if r == z3.sat:
                self.last_model = s3.model()
                return self.model_values(self.last_model)
            if r == z3.unsat:
                return "unsat"
            return None
        finally:
            st.solver_s += time.time() - t0

    # ---------------------------------------------------------------- obligations
    def prove(self, prop, label=""):
        """Decide obligation `prop` on this path: returns 'holds' | ('cex', model) | 'unknown'"""
        st = self.stats
        st.obligations += 1
        if prop is True or (isinstance(prop, Formula) and prop.kind == "const" and prop.a):
            st.t0 += 1
            return "holds"
        if prop is False:
            neg = TRUE
        else:
            prop = self.simplify(_as_formula(prop))
            if prop.kind == "const" and prop.a:
                st.t0 += 1
                return "holds"
            if self.known(prop):
                st.t0 += 1
                return "holds"
            neg = ~prop
        r = self._prove_neg(neg, self.engine.split_depth)
        if r == "unknown":
            st.unknown_obligations += 1
        return r

    def _prove_neg(self, neg, depth):
        global CTX
        st = self.stats
        ex = [neg] if neg is not TRUE else []
        if neg is not TRUE and self.engine.big_terms:
            # a huge polynomial disequality (identity that failed the normal-form zero test after unfolding): the SMT translation
            # is out of reach, but a non-zero polynomial is non-zero at generic points: hand it to the replay / witness search as a
            # candidate without solver model (reported only if a concrete input reproduces; otherwise the run is inconclusive)
            size = _formula_size(neg)
            if size > self.engine.big_terms and _only_disequalities(neg) and not self._has_open_ite(neg):
                st.add("big", "candidate")
                return ("cex", None)
        can_split = depth > 0 and self._pick_split_atom(neg) is not None
        r = self.check_sat(ex, purpose="prove-quick" if can_split else "prove")
        if r == "unsat":
            return "holds"
        if r == "sat":
            return ("cex", self.model_values(self.last_model))
        if r == "sat-cvc5":
            mv = self.find_model(ex, timeout_ms=self.engine.t3_ms)
            if isinstance(mv, dict):
                return ("cex", mv)
        if depth <= 0:
            return ("cex", None) if r == "sat-cvc5" else "unknown"
        # case split on an undetermined ite atom (prefer atoms occurring in the obligation)
        g = self._pick_split_atom(neg)
        if g is None:
            return ("cex", None) if r == "sat-cvc5" else "unknown"
        cnd = self.vinfo[g]["c"]
        st.add("split", "ite")
        unknown = False
        for br in (cnd, ~cnd):
            sub = self.clone()
            saved = CTX
            CTX = sub
            try:
                try:
                    sub._add_pc(br)
                except PathAbort:
                    continue
                rr = sub._prove_neg(sub.simplify(neg), depth - 1)
            finally:
                CTX = saved
            if rr == "holds":
                continue
            if rr == "unknown":
                unknown = True
                continue
            if rr[1] is not None:
                return rr
            unknown = True
        return "unknown" if unknown else "holds"

    def _has_open_ite(self, f):
        """does an if-then-else atom with undetermined condition occur in formula f? (then a case split may still reduce it to zero)"""
        occ = set()

        def walk(g):
            if g.kind == "rel":
                for m in g.a:
                    for i, e in enumerate(m):
                        if e:
                            occ.add(i)
            elif g.kind in ("and", "or"):
                for h in g.a:
                    walk(h)
            elif g.kind == "not":
                walk(g.a)

        walk(f)
        for g_ in occ:
            if g_ < len(self.vinfo) and self.vinfo[g_]["kind"] == "ite" and g_ not in self.elim:
                if self.simplify(self.vinfo[g_]["c"], False).kind != "const":
                    return True
        return False

    def _pick_split_atom(self, neg):
        cands = [g for g, info in enumerate(self.vinfo) if info["kind"] == "ite" and g not in self.elim]
        if not cands:
            return None
        occ = set()

        def walk(f):
            if f.kind == "rel":
                for m in f.a:
                    for i, e in enumerate(m):
                        if e:
                            occ.add(i)
            elif f.kind in ("and", "or"):
                for h in f.a:
                    walk(h)
            elif f.kind == "not":
                walk(f.a)

        walk(neg)
        und = []
        for g in cands:
            cnd = self.simplify(self.vinfo[g]["c"], False)
            if cnd.kind == "const":
                continue
            und.append(g)
        if not und:
            return None
        pref = [g for g in und if g in occ]
        return (pref or und)[0]


def _formula_size(f):
    if f.kind == "rel":
        return len(f.a)
    if f.kind in ("and", "or"):
        return sum(_formula_size(g) for g in f.a)
    if f.kind == "not":
        return _formula_size(f.a)
    return 0


def _only_disequalities(f):
    if f.kind == "rel":
        return f.b == "!=0"
    if f.kind == "or":
        return all(_only_disequalities(g) for g in f.a)
    return False


def _where():
    """file:line of the innermost frame inside /repo/src (for event reports)"""
    f = sys._getframe(1)
    while f is not None:
        fn = f.f_code.co_filename
        if "/skmatter/" in fn:
            return f"{os.path.basename(fn)}:{f.f_lineno}"
        f = f.f_back
    return ""


def _isqrt_exact(n):
    if n < 0:
        return None
    import math

    r = math.isqrt(n)
    return r if r * r == n else None


def _square_part(n):
    """n = sq^2 * sf with sf squarefree (n > 0 int)"""
    sq = 1
    sf = 1
    d = 2
    m = n
    while d * d <= m:
        e = 0
        while m % d == 0:
            m //= d
            e += 1
        sq *= d ** (e // 2)
        if e % 2:
            sf *= d
        d += 1
    sf *= m
    return sq, sf


def _z3_to_fraction(v):
    if z3.is_rational_value(v):
        return Fraction(v.numerator_as_long(), v.denominator_as_long())
    if z3.is_algebraic_value(v):
        a = v.approx(30)
        return Fraction(a.numerator_as_long(), a.denominator_as_long())
    if z3.is_int_value(v):
        return Fraction(v.as_long())
    try:
        return Fraction(str(v))
    except Exception:
        return Fraction(0)


# --------------------------------------------------------------------------- engine


class Engine:
    """Explores all paths of harness(ctx) by re-execution."""

    def __init__(self, pool=40, max_paths=20000, t1_ms=5000, t3_ms=8000, t2_ms=8000, feas_ms=1500, confirm_feas=True, wall_s=None, split_depth=6, big_terms=4000):
        self.pool = pool
        self.max_paths = max_paths
        self.t1_ms = t1_ms
        self.t3_ms = t3_ms
        self.t2_ms = t2_ms
        self.feas_ms = feas_ms
        self.confirm_feas = confirm_feas
        self.split_depth = split_depth
        self.big_terms = big_terms
        self.stats = Stats()
        self.stack = []
        self.wall_s = wall_s
        self.truncated = False

    def push(self, trace):
        self.stack.append(list(trace))

    def explore(self, harness):
        """harness(ctx) -> any; yields (ctx, result, abort) per path"""
        global CTX
        self.stack = [[]]
        t_start = time.time()
        while self.stack:
            if self.stats.paths >= self.max_paths or (self.wall_s and time.time() - t_start > self.wall_s):
                self.truncated = True
                break
            prefix = self.stack.pop()
            while True:
                c = Ctx(self, prefix)
                CTX = c
                try:
                    res = harness(c)
                    abort = None
                except PathAbort as e:
                    res = None
                    abort = e
                except PoolExhausted:
                    self.pool *= 2
                    continue
                finally:
                    CTX = None
                break
            self.stats.paths += 1
            yield c, res, abort
