"""Environment stubs for compiled linear-algebra kernels.

kind 1  closed forms (adjugate inverse / determinant / pinv of full-rank matrices)
kind 2  verified-frame decompositions: search a finite library of concrete rational
        orthogonal matrices Q for one with Q^T A Q identically diagonal (zero test),
        then return the symbolic diagonal as eigenvalues - an exact decomposition,
        i.e. one legal LAPACK output in exact arithmetic.  Out-of-family => Unsupported.
"""
from __future__ import annotations

import itertools
from fractions import Fraction as Fr

import numpy as _np

from . import arrays, core
from .arrays import SymArray, sym, is_sym
from .core import SReal, Unsupported, ctx, Formula

# ------------------------------------------------------------------ frame library


def _M(rows):
    return [[Fr(x) for x in r] for r in rows]


def _matmul(A, B):
    return [[sum(A[i][k] * B[k][j] for k in range(len(B))) for j in range(len(B[0]))] for i in range(len(A))]


def _T(A):
    return [list(r) for r in zip(*A)]


def _eye(n):
    return [[Fr(int(i == j)) for j in range(n)] for i in range(n)]


def _rot2(c, s):
    return _M([[c, -s], [s, c]])


def _embed(R, n, i, j):
    E = _eye(n)
    E[i][i], E[i][j], E[j][i], E[j][j] = R[0][0], R[0][1], R[1][0], R[1][1]
    return E


def _householder(v):
    n = len(v)
    vv = sum(Fr(x) * Fr(x) for x in v)
    return [[Fr(int(i == j)) - 2 * Fr(v[i]) * Fr(v[j]) / vv for j in range(n)] for i in range(n)]


R35 = _rot2(Fr(3, 5), Fr(4, 5))
R513 = _rot2(Fr(5, 13), Fr(12, 13))
H4 = [[Fr(x, 2) for x in r] for r in [[1, 1, 1, 1], [1, 1, -1, -1], [1, -1, 1, -1], [1, -1, -1, 1]]]

_LIB = {}


def library(n):
    """named concrete rational orthogonal n x n matrices"""
    if n in _LIB:
        return _LIB[n]
    L = []
    L.append(("I", _eye(n)))
    if n == 2:
        L.append(("R35", R35))
        L.append(("R513", R513))
        L.append(("F35", _matmul(R35, _M([[1, 0], [0, -1]]))))
        L.append(("R35R513", _matmul(R35, R513)))
    if n == 3:
        hh = _householder([1, 2, 2])
        L.append(("H122", hh))
        for (i, j) in ((0, 1), (0, 2), (1, 2)):
            L.append((f"R35_{i}{j}", _embed(R35, 3, i, j)))
        L.append(("R513_01", _embed(R513, 3, 0, 1)))
        L.append(("H122R35_01", _matmul(hh, _embed(R35, 3, 0, 1))))
        L.append(("R35_01R513_12", _matmul(_embed(R35, 3, 0, 1), _embed(R513, 3, 1, 2))))
        L.append(("H236", _householder([2, 3, 6])))
    if n == 4:
        L.append(("H4", H4))
        L.append(("H4R35_12", _matmul(H4, _embed(R35, 4, 1, 2))))
        L.append(("H4R35_23", _matmul(H4, _embed(R35, 4, 2, 3))))
        L.append(("H4R35_13R513_23", _matmul(_matmul(H4, _embed(R35, 4, 1, 3)), _embed(R513, 4, 2, 3))))
        L.append(("R35_01", _embed(R35, 4, 0, 1)))
    if n == 5:
        # first column (1,1,1,1,1)/sqrt5 is irrational: use Householder of integer vectors instead
        L.append(("H12222", _householder([1, 2, 2, 2, 2])))
    # sanity: orthogonality
    for name, Q in L:
        QtQ = _matmul(_T(Q), Q)
        assert QtQ == _eye(n), name
    _LIB[n] = L
    return L


def frame(n, name):
    for nm, Q in library(n):
        if nm == name:
            return Q
    raise KeyError(name)


def frame_arr(Q):
    return arrays.exact(Q)


HINTS = []  # frames (lists of Fraction rows) tried first by the decomposition stubs


def _cands(n):
    seen = []
    for Q in HINTS:
        if len(Q) == n:
            seen.append(Q)
    for nm, Q in library(n):
        seen.append(Q)
    return seen


def _is_zero(x):
    if isinstance(x, SReal):
        return x.f.numer.is_zero if hasattr(x.f.numer, "is_zero") else (not x.f.numer)
    return x == 0


def _diagonalising_frame(A):
    """find Q in library with Q^T A Q diagonal (identically). returns (Q exact array, diag list)"""
    n = A.shape[0]
    for Q in _cands(n):
        Qa = arrays.exact(Q)
        B = Qa.T @ A @ Qa
        ok = True
        for i in range(n):
            for j in range(n):
                if i != j and not _is_zero(B[i, j]):
                    ok = False
                    break
            if not ok:
                break
        if ok:
            return Qa, [B[i, i] for i in range(n)]
    return None, None


NAME_DET = 12  # determinants with more terms than this are named (abstraction by naming); 0 disables

STATS = {"eigh": 0, "svd": 0, "out_of_family": 0}


def _identically_symmetric(A):
    n = A.shape[0]
    for i in range(n):
        for j in range(i + 1, n):
            d = A[i, j] - A[j, i]
            if not _is_zero(d) and not (not isinstance(d, SReal) and d == 0):
                return False
    return True


def svd_sym_psd(A, full_matrices=False):
    """SVD of a symmetric positive semi-definite matrix diagonalised by a library frame: U = V = Q (columns sorted),
    S = eigenvalues in decreasing order; non-negativity of each eigenvalue is proved by the solver on this path
    (otherwise the generic svd stub with |lambda| is used)."""
    c = ctx()
    Q, d = _diagonalising_frame(A)
    if Q is None:
        STATS["out_of_family"] += 1
        raise Unsupported("svd: symmetric matrix not diagonalised by any library frame (out of family)")
    ds = []
    for x in d:
        x = SReal.lift(x)
        if not x.nn:
            if c.prove(core._as_formula(x >= 0) if not isinstance(x >= 0, bool) else core.Formula.const(x >= 0), "eigenvalue>=0") != "holds":
                return None
            x = SReal(x.f, True)
        ds.append(x)
    dv = _np.empty(len(ds), dtype=object)
    for i, x in enumerate(ds):
        dv[i] = x
    dv = dv.view(SymArray)
    order = arrays.argsort(-dv)
    STATS["svd"] += 1
    Qs = Q[:, order]
    return Qs, dv[order], Qs.T.copy()


def eigh(A, *a, **k):
    if not is_sym(A):
        return _np.linalg.eigh(A, *a, **k)
    A = sym(A)
    Q, d = _diagonalising_frame(A)
    if Q is None:
        STATS["out_of_family"] += 1
        raise Unsupported("eigh: matrix not diagonalised by any frame of the library (out of family)")
    STATS["eigh"] += 1
    dv = _np.empty(len(d), dtype=object)
    for i, x in enumerate(d):
        dv[i] = x
    dv = dv.view(SymArray)
    order = arrays.argsort(dv)  # ascending like LAPACK; forks on the symbolic order
    return dv[order], Q[:, order]


def eigh_scipy(A, *a, **k):
    return eigh(A)


def svd(A, full_matrices=True, compute_uv=True, **k):
    """exact SVD of A when A^T A is diagonalised by a library frame V: s_i = sqrt(d_i),
    u_i = A v_i / s_i for s_i > 0; zero singular values get u_i from a left frame of A A^T."""
    if not is_sym(A):
        return _np.linalg.svd(A, full_matrices=full_matrices, compute_uv=compute_uv, **k)
    A = sym(A)
    n, m = A.shape
    if n == m and compute_uv and _identically_symmetric(A):
        r = svd_sym_psd(A)
        if r is not None:
            return r
    if m <= n:
        V, d = _diagonalising_frame(A.T @ A)
        if V is None:
            STATS["out_of_family"] += 1
            raise Unsupported("svd: A^T A not diagonalised by any library frame (out of family)")
        r = m
    else:
        Ut, s, Vt = svd(A.T.copy(), full_matrices=full_matrices, compute_uv=True)
        if not compute_uv:
            return s
        return Vt.T, s, Ut.T
    STATS["svd"] += 1
    dv = _np.empty(len(d), dtype=object)
    for i, x in enumerate(d):
        dv[i] = x
    dv = dv.view(SymArray)
    order = arrays.argsort(-dv)  # descending
    d_sorted = dv[order]
    V = V[:, order]
    s = arrays.sqrt(d_sorted)
    if not compute_uv:
        return s
    # left vectors
    U = arrays.zeros((n, r))
    zero_cols = []
    for i in range(r):
        nz = s[i] != 0
        if bool(nz) if isinstance(nz, Formula) else nz:
            U[:, i] = (A @ V[:, i]) / s[i]
        else:
            zero_cols.append(i)
    if zero_cols or (full_matrices and n > r):
        need_cols = list(zero_cols) + ([None] * (n - r) if full_matrices and n > r else [])
        # complete with a left frame of A A^T when the library has one ...
        QL, dl = _diagonalising_frame(A @ A.T)
        done = False
        if QL is not None:
            free = []
            for j in range(n):
                z = dl[j] == 0
                if (bool(z) if isinstance(z, Formula) else z):
                    free.append(j)
            if len(free) >= len(need_cols):
                it = iter(free)
                extra = []
                for i in need_cols:
                    if i is None:
                        extra.append(QL[:, next(it)])
                    else:
                        U[:, i] = QL[:, next(it)]
                if extra:
                    U = arrays._rewrap(_np.concatenate)([U] + [e.reshape(n, 1) for e in extra], axis=1)
                done = True
        if not done:
            # ... otherwise by Gram-Schmidt against standard basis vectors: any orthonormal completion is a legal output
            have = [i for i in range(r) if i not in zero_cols]
            basis = [U[:, i] for i in have]
            extra = []
            k_e = 0
            for i in need_cols:
                while True:
                    if k_e >= n:
                        raise Unsupported("svd: cannot complete left singular vectors")
                    e = arrays.zeros(n)
                    e[k_e] = ctx().const(1)
                    k_e += 1
                    v = e
                    for b in basis:
                        v = v - b * (b * e).sum()
                    nrm2 = (v * v).sum()
                    nzq = nrm2 != 0
                    if bool(nzq) if isinstance(nzq, Formula) else nzq:
                        u = v / core.ssqrt(nrm2)
                        break
                basis.append(u)
                if i is None:
                    extra.append(u)
                else:
                    U[:, i] = u
            if extra:
                U = arrays._rewrap(_np.concatenate)([U] + [e.reshape(n, 1) for e in extra], axis=1)
    return U, s, V.T


# ------------------------------------------------------------------ closed forms


def det(A):
    if not is_sym(A):
        return _np.linalg.det(A)
    n = A.shape[0]
    if n == 1:
        return A[0, 0]
    if n == 2:
        return A[0, 0] * A[1, 1] - A[0, 1] * A[1, 0]
    s = None
    for j in range(n):
        minor = _np.delete(_np.delete(A, 0, axis=0), j, axis=1)
        t = A[0, j] * det(minor)
        if j % 2:
            t = -t
        s = t if s is None else s + t
    return s


def inv(A):
    if not is_sym(A):
        return _np.linalg.inv(A)
    A = sym(A)
    n = A.shape[0]
    d = det(A)
    if NAME_DET and isinstance(d, SReal) and (len(d.f.numer) + len(d.f.denom)) > NAME_DET:
        d = ctx().name(d, "det")  # keeps the entries of the inverse small (no gcd against a big determinant)
    if n == 1:
        out = arrays.zeros((1, 1))
        out[0, 0] = 1 / d
        return out
    adj = arrays.zeros((n, n))
    for i in range(n):
        for j in range(n):
            minor = _np.delete(_np.delete(A, i, axis=0), j, axis=1)
            c = det(minor)
            if (i + j) % 2:
                c = -c
            adj[j, i] = c
    return adj / d


def inv_np(A):
    """model of numpy.linalg.inv as the analysed code sees it: the inverse when det != 0.  For a matrix that is singular in exact
    arithmetic the float routine is unreliable - it raises LinAlgError only when LU meets an exact zero pivot and otherwise returns
    arbitrary (huge) values - so both outcomes are explored: LinAlgError, and a matrix of fresh unconstrained symbols."""
    if not is_sym(A):
        return _np.linalg.inv(A)
    A = sym(A)
    d = det(A)
    nz = d != 0
    if bool(nz) if isinstance(nz, Formula) else nz:
        return inv(A)
    c = ctx()
    k = getattr(c, "_inv_garbage", 0)
    c._inv_garbage = k + 1
    pick = c.sym(f"invsingular{k}")
    raises = pick > 0
    if bool(raises) if isinstance(raises, Formula) else raises:
        raise _np.linalg.LinAlgError("Singular matrix")
    n = A.shape[0]
    out = arrays.zeros((n, n))
    for i in range(n):
        for j in range(n):
            out[i, j] = c.sym(f"invgarbage{k}x{i}x{j}")
    return out


def solve(A, B):
    if not is_sym(A) and not is_sym(B):
        return _np.linalg.solve(A, B)
    return inv(sym(A)) @ sym(B)


def _nonzero_rc(A):
    """indices of rows/cols that are not identically zero"""
    rows = [i for i in range(A.shape[0]) if not all(_is_zero(x) for x in A[i])]
    cols = [j for j in range(A.shape[1]) if not all(_is_zero(x) for x in A[:, j])]
    return rows, cols


def pinv(A, rcond=None, hermitian=False, **k):
    """Moore-Penrose inverse for matrices that are full rank after stripping identically-zero
    rows/columns (the rank-deficient branch raises the 'singular' event)."""
    if not is_sym(A):
        return _np.linalg.pinv(A, **({} if rcond is None else {"rcond": rcond}))
    A = sym(A)
    n, m = A.shape
    rows, cols = _nonzero_rc(A)
    out = arrays.zeros((m, n))
    if not rows or not cols:
        return out
    B = A[_np.ix_(rows, cols)]
    r, c = B.shape
    if r == c and r >= 2 and _identically_symmetric(B):
        # symmetric matrix diagonalised by a library frame: pinv = Q diag(1/d_i or 0) Q^T (rank-deficient members included)
        Q, dg = _diagonalising_frame(B)
        if Q is not None and not all(_is_zero(Q[i, j]) for i in range(r) for j in range(r) if i != j):
            Dp = arrays.zeros((r, r))
            for i in range(r):
                nz = dg[i] != 0
                if bool(nz) if isinstance(nz, Formula) else nz:
                    Dp[i, i] = 1 / dg[i]
            Bi = Q @ Dp @ Q.T
            for a, j in enumerate(cols):
                for b, i in enumerate(rows):
                    out[j, i] = Bi[a, b]
            return out
    if r == c:
        d = det(B)
        nz = d != 0
        if not (bool(nz) if isinstance(nz, Formula) else nz):
            ctx().event("singular", "pinv of singular matrix")
        Bi = inv(B)
    elif r > c:
        G = B.T @ B
        d = det(G)
        nz = d != 0
        if not (bool(nz) if isinstance(nz, Formula) else nz):
            ctx().event("singular", "pinv of rank-deficient matrix")
        Bi = inv(G) @ B.T
    else:
        G = B @ B.T
        d = det(G)
        nz = d != 0
        if not (bool(nz) if isinstance(nz, Formula) else nz):
            ctx().event("singular", "pinv of rank-deficient matrix")
        Bi = B.T @ inv(G)
    for a, j in enumerate(cols):
        for b, i in enumerate(rows):
            out[j, i] = Bi[a, b]
    return out


def lstsq(A, B, rcond=None):
    if not is_sym(A) and not is_sym(B):
        return _np.linalg.lstsq(A, B, rcond=rcond)
    X = pinv(sym(A)) @ sym(B)
    return X, None, None, None


def matrix_rank(A, tol=None, **k):
    if not is_sym(A):
        return _np.linalg.matrix_rank(A, tol=tol, **k)
    A = sym(A)
    n, m = A.shape
    r = min(n, m)
    # largest k with a nonzero k x k minor (forks)
    for kk in range(r, 0, -1):
        for rows in itertools.combinations(range(n), kk):
            for cols in itertools.combinations(range(m), kk):
                d = det(A[_np.ix_(rows, cols)])
                nz = d != 0
                if bool(nz) if isinstance(nz, Formula) else nz:
                    return kk
    return 0


LINALG_STUBS = {"eigh": eigh, "svd": svd, "inv": inv_np, "pinv": pinv, "det": det, "solve": solve, "lstsq": lstsq,
                "matrix_rank": matrix_rank}
