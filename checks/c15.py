"""C15 - periodic and Mahalanobis distances obey the metric laws under minimum image."""
from __future__ import annotations

import itertools
import os
import sys
from fractions import Fraction as Fr

sys.path.insert(0, os.path.dirname(os.path.dirname(os.path.abspath(__file__))))

import numpy as np

from symx import arrays, core, runner, linalg
from symx.arrays import is_sym
from symx.core import Formula, f_and, f_or, TRUE, FALSE
from checks import sel_common as sc

F_ = sc._F


def _stub_check_pairwise_arrays(X, Y, **k):
    if not is_sym(X) and not is_sym(Y):
        from sklearn.metrics.pairwise import check_pairwise_arrays as real

        return real(X, Y, **k)
    if Y is None:
        Y = X
    if X.ndim != 2 or Y.ndim != 2:
        raise ValueError("Expected 2D array")
    if X.shape[1] != Y.shape[1]:
        raise ValueError("Incompatible dimension for X and Y matrices")
    return X, Y


def _stub_euclidean(X, Y, X_norm_squared=None, Y_norm_squared=None, squared=False):
    """sklearn's _euclidean_distances by its documented formula"""
    if not is_sym(X) and not is_sym(Y):
        from sklearn.metrics.pairwise import _euclidean_distances as real

        return real(X, Y, X_norm_squared=X_norm_squared, Y_norm_squared=Y_norm_squared, squared=squared)
    out = arrays.zeros((X.shape[0], Y.shape[0]))
    for i in range(X.shape[0]):
        for j in range(Y.shape[0]):
            d = X[i] - Y[j]
            out[i, j] = (d * d).sum()
    return out if squared else arrays.sqrt(out)


def box(R, dim):
    return list(itertools.product(range(-R, R + 1), repeat=dim))


class C15(runner.Check):
    pid = "C15"
    modules = ["skmatter.metrics._pairwise"]
    linalg_stubs = linalg.LINALG_STUBS
    engine_opts = dict(pool=40, max_paths=6000, feas_ms=1200, t3_ms=8000, t2_ms=8000, wall_s=1500)
    bounds_text = ("dimensions 1-2 (thorough 3), 2-3 points, concrete anisotropic rectangular cells incl. (3/2), (1, 7/2), (2, 3, 1/2) and one symbolic positive "
                   "cell length in 1-D; coordinates symbolic within +-1 cell (thorough +-2), so the rounded image index is forked over a finite range; "
                   "integer image shifts from a concrete set; precisions: identity, symbolic L L^T (lower-triangular L), stack of two.")
    stubs = ["sklearn check_pairwise_arrays (shape contract)", "sklearn _euclidean_distances (documented formula)",
             "np.round -> bounded integer fork (round-half-even)", "np.linalg.norm / **0.5 -> sqrt atoms with perfect-square extraction"]
    assumptions = ["exact real arithmetic", "coordinates within the stated number of cells", "cell lengths > 0"]
    outside = ["triangle inequality for dimension >= 2 as a direct query (follows from the decided minimum-image characterisation)",
               "coordinates farther out than the bound", "more than 3 dimensions"]

    def configs(self, tier):
        cf = []

        def add(mode, dim, cell, npts=2, B=1, cost=1, **kw):
            R = 2 * B
            c = {"mode": mode, "dim": dim, "cell": cell, "npts": npts, "B": B, "_engine": {"round_range": (-R, R)}, "_cost": cost}
            c.update(kw)
            cf.append(c)

        add("minimage", 1, ["3/2"], cost=1)
        add("minimage", 2, ["1", "7/2"], cost=6)
        add("minimage", 1, "sym", cost=2)
        add("shift", 1, ["3/2"], shifts=[[1], [-2]], cost=2)
        add("shift", 2, ["1", "7/2"], shifts=[[1, -1]], cost=8)
        add("triangle", 1, ["2"], npts=3, cost=4)
        add("nocell", 2, None, cost=1)
        add("maha-identity", 2, ["1", "7/2"], cost=6)
        add("maha-general", 2, ["2", "3"], cost=8)
        add("maha-whiten", 2, None, cost=2)
        add("maha-stack", 1, ["3/2"], cost=2)
        add("dim-mismatch", 2, ["1"], cost=1)
        if tier == "thorough":
            add("minimage", 2, ["1", "7/2"], B=2, cost=40)
            add("minimage", 3, ["2", "3", "1/2"], cost=60)
            add("shift", 2, ["1", "7/2"], shifts=[[2, 0], [-1, 3]], cost=30)
            add("triangle", 1, "sym", npts=3, cost=10)
            add("maha-general", 2, ["1", "7/2"], B=1, cost=20)
            add("maha-identity", 3, ["2", "3", "1/2"], cost=60)
        return cf

    def patches(self, cfg):
        return {"skmatter.metrics._pairwise": {"check_pairwise_arrays": _stub_check_pairwise_arrays, "_euclidean_distances": _stub_euclidean}}

    # ------------------------------------------------------------------
    def _cell(self, c, cfg):
        if cfg["cell"] is None:
            return None
        if cfg["cell"] == "sym":
            return [c.sym("cell", positive=True)]
        return [c.const(Fr(x)) for x in cfg["cell"]]

    def _points(self, c, cfg, cell, name="x", n=None):
        n = n or cfg["npts"]
        X = arrays.symbols(name, (n, cfg["dim"]))
        if cell is not None:
            B = cfg["B"]
            for i in range(n):
                for k in range(cfg["dim"]):
                    c.assume(X[i, k] <= cell[k] * B)
                    c.assume(X[i, k] >= -(cell[k] * B))
        return X

    def harness(self, c, cfg, P):
        from skmatter.metrics import periodic_pairwise_euclidean_distances as ppd
        from skmatter.metrics import pairwise_mahalanobis_distances as pmd

        mode, dim = cfg["mode"], cfg["dim"]
        cell = self._cell(c, cfg)
        cl = None if cell is None else arrays.array(cell, dtype=object)
        R = 2 * cfg["B"]
        if mode == "dim-mismatch":
            X = arrays.symbols("x", (2, dim))
            raised = False
            try:
                ppd(X, cell_length=cl)
            except ValueError:
                raised = True
            r2 = False
            try:
                pmd(X, X, arrays.eye(dim), cell_length=cl)
            except ValueError:
                r2 = True
            P.require(Formula.const(raised and r2), "mismatched-cell-dimension-rejected")
            return {"raised": [raised, r2]}
        X = self._points(c, cfg, cell)
        n = X.shape[0]

        def imgs(i, j, nvec):
            s = None
            for k in range(dim):
                w = X[i, k] - X[j, k] - cell[k] * nvec[k]
                s = w * w if s is None else s + w * w
            return s

        if mode in ("minimage", "shift", "triangle"):
            D2 = ppd(X, squared=True, cell_length=cl)
            bx = box(R + 1, dim)
            fs = []
            for i in range(n):
                fs.append(F_(D2[i, i] == 0))
                for j in range(n):
                    if i == j:
                        continue
                    fs.append(F_(D2[i, j] == D2[j, i]))
            P.require_all(fs, "symmetric-and-zero-diagonal")
            for i in range(n):
                for j in range(i + 1, n):
                    P.require_all([F_(D2[i, j] <= imgs(i, j, nv)) for nv in bx], "distance<=every-image(incl. free-space)", {"pair": [i, j]})
                    P.require(f_or(*[F_(D2[i, j] == imgs(i, j, nv)) for nv in bx]), "distance-attained-by-an-image", {"pair": [i, j]})
                    half = None
                    for k in range(dim):
                        h = cell[k] * cell[k] / 4
                        half = h if half is None else half + h
                    P.require(F_(D2[i, j] <= half), "distance<=half-cell-diagonal", {"pair": [i, j]})
                    P.require(F_(D2[i, j] >= 0), "non-negative")
        if mode == "minimage":
            D = ppd(X, squared=False, cell_length=cl)
            fs = [F_(D[i, j] * D[i, j] == D2[i, j]) for i in range(n) for j in range(n)] + [F_(D[i, j] >= 0) for i in range(n) for j in range(n)]
            P.require_all(fs, "squared-is-the-square")
            # separate Y argument
            Y = X[:1].copy()
            DY = ppd(X, Y, squared=True, cell_length=cl)
            P.require_all([F_(DY[i, 0] == D2[i, 0]) for i in range(n)], "explicit-Y-equals-implicit")
        if mode == "shift":
            for sh in cfg["shifts"]:
                Xs = X.copy()
                for k in range(dim):
                    Xs[0, k] = X[0, k] + cell[k] * sh[k]
                Ds = ppd(Xs, squared=True, cell_length=cl)
                P.require_all([F_(Ds[i, j] == D2[i, j]) for i in range(n) for j in range(n)], "invariant-under-integer-image-shift", {"shift": sh})
                # a point and its image are at distance zero
                Z = arrays.array([list(X[0]), list(Xs[0])], dtype=object)
                Dz = ppd(Z, squared=True, cell_length=cl)
                P.require(F_(Dz[0, 1] == 0), "zero-between-periodic-images")
        if mode == "triangle":
            D = ppd(X, squared=False, cell_length=cl)
            fs = []
            for (i, j, k) in itertools.permutations(range(n), 3):
                fs.append(F_(D[i, k] <= D[i, j] + D[j, k]))
            P.require_all(fs, "triangle-inequality-1d")
        if mode == "nocell":
            D = ppd(X, squared=True)
            fs = [F_(D[i, j] == sc.sqdist(X[i], X[j])) for i in range(n) for j in range(n)]
            P.require_all(fs, "no-cell==euclidean")
            Dn = ppd(X, squared=False)
            P.require_all([F_(Dn[i, j] * Dn[i, j] == D[i, j]) for i in range(n) for j in range(n)], "no-cell-squared-is-the-square")
        if mode == "maha-identity":
            M2 = pmd(X, X, arrays.eye(dim), cell_length=cl, squared=True)
            D2 = ppd(X, squared=True, cell_length=cl)
            P.require(Formula.const(M2.shape == (1, n, n)), "stack-shape")
            P.require_all([F_(M2[0, i, j] == D2[i, j]) for i in range(n) for j in range(n)], "identity-precision==periodic-euclidean")
        if mode in ("maha-general", "maha-whiten"):
            L = arrays.zeros((dim, dim))
            for a in range(dim):
                for b in range(a + 1):
                    L[a, b] = c.sym(f"l_{a}_{b}")
            Pm = L @ L.T
            M2 = pmd(X, X, Pm, cell_length=cl, squared=True)
            if cell is None:
                W = X @ L  # whitened points: (x-y)^T L L^T (x-y) = |L^T (x-y)|^2
                fs = [F_(M2[0, i, j] == sc.sqdist(W[i], W[j])) for i in range(n) for j in range(n)]
                P.require_all(fs, "precision-LLt==euclidean-on-whitened")
                M = pmd(X, X, Pm, squared=False)
                P.require_all([F_(M[0, i, j] * M[0, i, j] == M2[0, i, j]) for i in range(n) for j in range(n)], "mahalanobis-squared-is-the-square")
            else:
                bx = box(R + 1, dim)
                for i in range(n):
                    for j in range(n):
                        if i == j:
                            continue
                        alts = []
                        for nv in bx:
                            w = [X[i, k] - X[j, k] - cell[k] * nv[k] for k in range(dim)]
                            inhalf = f_and(*[f_and(F_(w[k] * 2 <= cell[k]), F_(w[k] * 2 >= -cell[k])) for k in range(dim)])
                            q = None
                            for a in range(dim):
                                for b in range(dim):
                                    t = w[a] * Pm[a, b] * w[b]
                                    q = t if q is None else q + t
                            alts.append(f_and(inhalf, F_(M2[0, i, j] == q)))
                        P.require(f_or(*alts), "mahalanobis==quadratic-form-of-minimum-image-displacement", {"pair": [i, j]})
        if mode == "maha-stack":
            p1, p2 = c.sym("p1", positive=True), c.sym("p2", positive=True)
            S = arrays.array([[[p1]], [[p2]]], dtype=object)
            M = pmd(X, X, S, cell_length=cl, squared=True)
            A = pmd(X, X, arrays.array([[p1]], dtype=object), cell_length=cl, squared=True)
            Bm = pmd(X, X, arrays.array([[p2]], dtype=object), cell_length=cl, squared=True)
            P.require(Formula.const(M.shape == (2, n, n)), "stack-shape")
            fs = [F_(M[0, i, j] == A[0, i, j]) for i in range(n) for j in range(n)] + [F_(M[1, i, j] == Bm[0, i, j]) for i in range(n) for j in range(n)]
            P.require_all(fs, "stack-of-precisions-independent")
        return {"ok": True}

    # ------------------------------------------------------------------ float replay
    def concrete(self, cfg, values):
        from skmatter.metrics import periodic_pairwise_euclidean_distances as ppd
        from skmatter.metrics import pairwise_mahalanobis_distances as pmd

        mode, dim, n = cfg["mode"], cfg["dim"], cfg["npts"]
        viol = []
        if cfg["cell"] is None:
            cell = None
        elif cfg["cell"] == "sym":
            cell = np.array([float(values.get("cell", 1.5))])
        else:
            cell = np.array([float(Fr(x)) for x in cfg["cell"]])
        if mode == "dim-mismatch":
            X = np.zeros((2, dim))
            r = []
            for f in (lambda: ppd(X, cell_length=cell), lambda: pmd(X, X, np.eye(dim), cell_length=cell)):
                try:
                    f()
                    r.append(False)
                except ValueError:
                    r.append(True)
            if not all(r):
                viol.append(("mismatched-cell-dimension-rejected", r))
            return {"raised": r}, viol
        X = np.array([[float(values.get(f"x_{i}_{k}", 0.37 * (i + 1) - 0.9 * k)) for k in range(dim)] for i in range(n)])
        tol = 1e-9

        def true_d2(a, b):
            d = a - b
            if cell is None:
                return float(d @ d)
            best = 0.0
            for k in range(dim):
                best += min((d[k] - m * cell[k]) ** 2 for m in range(-12, 13))
            return best

        if mode in ("minimage", "shift", "triangle", "nocell"):
            D2 = ppd(X, squared=True, cell_length=cell)
            D = ppd(X, squared=False, cell_length=cell)
            T = np.array([[true_d2(X[i], X[j]) for j in range(n)] for i in range(n)])
            if np.max(np.abs(D2 - T)) > tol * max(1.0, T.max()):
                viol.append(("distance==minimum-over-images", {"got": D2.tolist(), "true": T.tolist()}))
            if np.max(np.abs(D * D - D2)) > 1e-8 * max(1.0, D2.max()):
                viol.append(("squared-is-the-square", None))
            if not np.allclose(D2, D2.T, atol=tol):
                viol.append(("symmetric-and-zero-diagonal", None))
            if cell is not None and np.any(D2 > (cell**2).sum() / 4 + tol):
                viol.append(("distance<=half-cell-diagonal", None))
            if mode == "shift":
                for sh in cfg["shifts"]:
                    Xs = X.copy()
                    Xs[0] += np.array(sh) * cell
                    Ds = ppd(Xs, squared=True, cell_length=cell)
                    if np.max(np.abs(Ds - D2)) > 1e-8 * max(1.0, D2.max()):
                        viol.append(("invariant-under-integer-image-shift", {"shift": sh}))
            if mode == "triangle":
                for (i, j, k) in itertools.permutations(range(n), 3):
                    if D[i, k] > D[i, j] + D[j, k] + 1e-9:
                        viol.append(("triangle-inequality-1d", [i, j, k]))
        if mode.startswith("maha"):
            if mode == "maha-identity":
                Pm = np.eye(dim)
            elif mode == "maha-stack":
                Pm = None
            else:
                L = np.zeros((dim, dim))
                for a in range(dim):
                    for b in range(a + 1):
                        L[a, b] = float(values.get(f"l_{a}_{b}", 1.0 if a == b else 0.6))
                Pm = L @ L.T
            if mode == "maha-stack":
                p1, p2 = float(values.get("p1", 1.3)), float(values.get("p2", 0.4))
                M = pmd(X, X, np.array([[[p1]], [[p2]]]), cell_length=cell, squared=True)
                A = pmd(X, X, np.array([[p1]]), cell_length=cell, squared=True)
                Bm = pmd(X, X, np.array([[p2]]), cell_length=cell, squared=True)
                if M.shape != (2, n, n) or not np.allclose(M[0], A[0]) or not np.allclose(M[1], Bm[0]):
                    viol.append(("stack-of-precisions-independent", None))
            else:
                M2 = pmd(X, X, Pm, cell_length=cell, squared=True)
                for i in range(n):
                    for j in range(n):
                        d = X[i] - X[j]
                        if cell is not None:
                            w = np.array([min((d[k] - m * cell[k] for m in range(-12, 13)), key=abs) for k in range(dim)])
                            half_tie = any(abs(abs(w[k]) - cell[k] / 2) < 1e-9 for k in range(dim))
                        else:
                            w, half_tie = d, False
                        q = float(w @ Pm @ w)
                        if abs(M2[0, i, j] - q) > 1e-8 * max(1.0, abs(q)) and not half_tie:
                            viol.append(("mahalanobis==quadratic-form-of-minimum-image-displacement", {"pair": [i, j], "got": float(M2[0, i, j]), "want": q}))
        return {"ok": True}, viol

    def fix_values(self, cfg, new, model):
        # keep coordinates inside the assumed box
        if cfg["cell"] not in (None, "sym"):
            for k, v in list(new.items()):
                if k.startswith("x_"):
                    dim_k = int(k.split("_")[2])
                    cl = Fr(cfg["cell"][dim_k]) * cfg["B"]
                    new[k] = max(-cl, min(cl, Fr(v)))
        for k, v in model.items():
            if not k.startswith("x_") and v is not None:
                new[k] = v
        return new

    def signature(self, cfg, clause, values, viol):
        names = sorted(set(v[0] for v in viol))
        return f"C15/{cfg['mode']}/{'+'.join(names)}/dim={cfg['dim']}"


if __name__ == "__main__":
    sys.exit(runner.main(C15()))
