"""C16 - QuickShift returns the basin partition of the density-ascent graph."""
from __future__ import annotations

import itertools
import os
import sys
from fractions import Fraction as Fr

sys.path.insert(0, os.path.dirname(os.path.dirname(os.path.abspath(__file__))))

import numpy as np

from symx import arrays, core, runner, linalg
from symx.core import Formula, f_and, f_or, TRUE, FALSE
from checks import sel_common as sc
from checks import c15

F_ = sc._F
INF = float("inf")


def lt(a, b):
    if isinstance(a, float) and a == INF:
        return FALSE
    if isinstance(b, float) and b == INF:
        return TRUE
    return F_(a < b)


def le(a, b):
    if isinstance(b, float) and b == INF:
        return TRUE
    if isinstance(a, float) and a == INF:
        return FALSE
    return F_(a <= b)


class C16(runner.Check):
    pid = "C16"
    modules = ["skmatter.clustering._quick_shift", "skmatter.metrics._pairwise"]
    linalg_stubs = linalg.LINALG_STUBS
    engine_opts = dict(pool=40, max_paths=20000, feas_ms=800, t3_ms=6000, t2_ms=6000, wall_s=2400)
    bounds_text = ("n = 3 points (quick) and n = 4 (thorough): the squared-distance matrix is fully symbolic (symmetric, positive off-diagonal; "
                   "supplied through the public `metric` parameter, so no geometry is assumed), weights symbolic and pairwise distinct (all orderings are explored "
                   "as forks), per-point cut-offs and `scale` symbolic positive; gabriel_shell in {1,2,3}; all n! permutations of the input order; "
                   "periodic clause: 2 (thorough 3) symbolic points in R^1 with a concrete cell through the real periodic metric.")
    stubs = ["tqdm -> plain iteration", "np.argmin(axis=1) -> lazily forked per row", "periodic metric as in C15 (cell clause only)"]
    assumptions = ["exact real arithmetic", "weights pairwise distinct (statement)", "distances between distinct points > 0, cut-offs > 0, scale > 0"]
    outside = ["n > 4", "hundreds of points"]

    def configs(self, tier):
        cf = []

        def add(mode, n, shell=None, perms="all", cost=1, orders=None, **kw):
            allo = list(itertools.permutations(range(n)))
            for wo in (allo if orders is None else [allo[i] for i in orders]):
                c = {"mode": mode, "n": n, "shell": shell, "perms": perms, "worder": list(wo), "_cost": cost, "_validate": 3}
                c.update(kw)
                cf.append(c)

        add("cutoff", 3, cost=3)
        for sh in (1, 2, 3):
            add("gabriel", 3, shell=sh, cost=2)
        add("cell", 2, cost=6, _engine={"round_range": (-3, 3)})
        # collinear points (symbolic gaps): the Gabriel graph is the path graph, so shells >= 3 matter already for n = 4
        for sh in (2, 3):
            add("gabriel", 4, shell=sh, perms=[[1, 3, 0, 2]], line=True, cost=5)
        if tier == "thorough":
            add("cell", 3, cost=60, orders=[0, 3, 5], perms=[[2, 0, 1]], _engine={"round_range": (-3, 3)})
            add("cutoff", 4, perms=[[2, 0, 1, 3], [3, 2, 1, 0]], cost=60)
            add("gabriel", 4, shell=2, perms=[[1, 3, 0, 2]], cost=60)
            add("gabriel", 4, shell=3, perms=[[3, 2, 1, 0]], orders=[0, 5, 11, 16, 23], cost=60)
        return cf

    def patches(self, cfg):
        return {"skmatter.clustering._quick_shift": {"tqdm": (lambda it, **k: it)},
                "skmatter.metrics._pairwise": {"check_pairwise_arrays": c15._stub_check_pairwise_arrays, "_euclidean_distances": c15._stub_euclidean}}

    # ------------------------------------------------------------------
    def _run(self, cfg, D, w, cut, scale, order=None, X=None, cell=None):
        from skmatter.clustering import QuickShift

        n = cfg["n"]
        order = list(range(n)) if order is None else order
        if cfg["mode"] == "cell":
            Xp = X[order].copy()
            qs = QuickShift(dist_cutoff_sq=arrays.array([cut[i] for i in order], dtype=object), scale=scale,
                            metric_params={"cell_length": cell})
            qs.fit(Xp, samples_weight=arrays.array([w[i] for i in order], dtype=object))
        else:
            Dp = arrays.zeros((n, n))
            for a in range(n):
                for b in range(n):
                    Dp[a, b] = D[order[a]][order[b]]

            def metric(A, B, squared=True, **kw):
                return Dp.copy()

            kw = {}
            if cfg["mode"] == "cutoff":
                kw["dist_cutoff_sq"] = arrays.array([cut[i] for i in order], dtype=object)
                kw["scale"] = scale
            else:
                kw["gabriel_shell"] = cfg["shell"]
            qs = QuickShift(metric=metric, metric_params={"cell_length": None}, **kw)
            qs.fit(arrays.zeros((n, 1)), samples_weight=arrays.array([w[i] for i in order], dtype=object))
        lab = [int(v) for v in qs.labels_]
        # labels in original numbering
        out = [None] * n
        for a in range(n):
            out[order[a]] = order[lab[a]]
        return out, qs

    def harness(self, c, cfg, P):
        n = cfg["n"]
        w = [c.sym(f"w_{i}") for i in range(n)]
        wo = cfg["worder"]  # weights strictly increasing along this order (one configuration per ordering)
        for a in range(n - 1):
            c.assume(w[wo[a]] < w[wo[a + 1]])
        scale = c.sym("scale", positive=True) if cfg["mode"] != "gabriel" else None
        cut = [c.sym(f"cut_{i}", positive=True) for i in range(n)] if cfg["mode"] != "gabriel" else None
        X = cell = None
        if cfg["mode"] == "cell":
            cellv = [c.const(Fr(3, 2))]
            cell = arrays.array(cellv, dtype=object)
            X = arrays.symbols("x", (n, 1))
            for i in range(n):
                c.assume(X[i, 0] * 2 <= cellv[0])
                c.assume(X[i, 0] * 2 >= -cellv[0])
            D = None
        else:
            D = [[None] * n for _ in range(n)]
            if cfg.get("line"):
                gaps = [c.sym(f"g_{i}", positive=True) for i in range(n - 1)]
                pos = [c.const(0)]
                for g in gaps:
                    pos.append(pos[-1] + g)
            for i in range(n):
                for j in range(i + 1, n):
                    if cfg.get("line"):
                        dd = pos[j] - pos[i]
                        D[i][j] = D[j][i] = dd * dd
                    else:
                        D[i][j] = D[j][i] = c.sym(f"d_{i}_{j}", positive=True)
                D[i][i] = c.const(0)
        lab, qs = self._run(cfg, D, w, cut, scale, X=X, cell=cell)
        if cfg["mode"] == "cell":
            # distances as the real metric computed them (already forked); rebuild the matrix for the oracle
            from skmatter.metrics import periodic_pairwise_euclidean_distances as ppd

            Dm = ppd(X, X, squared=True, cell_length=cell)
            D = [[Dm[i, j] for j in range(n)] for i in range(n)]
        Dinf = [[(INF if i == j else D[i][j]) for j in range(n)] for i in range(n)]
        eff = [cut[i] * scale * scale for i in range(n)] if cut is not None else None
        heavier = lambda j, i: F_(w[j] > w[i])
        # allowed(i, j): the rule lets i move to j
        if cfg["mode"] != "gabriel":
            def allowed(i, j):
                nearest = f_and(*[le(Dinf[i][j], Dinf[i][k]) for k in range(n) if k not in (i, j)])
                return f_or(lt(Dinf[i][j], eff[i]), nearest)
        else:
            gab = [[TRUE if i != j else FALSE for j in range(n)] for i in range(n)]
            for i in range(n):
                for j in range(n):
                    if i != j:
                        gab[i][j] = f_and(*[~F_(D[i][k] + D[j][k] < D[i][j]) for k in range(n) if k not in (i, j)])
            # concrete check of the real Gabriel graph on this path against the brute-force definition
            from skmatter.clustering._quick_shift import _get_gabriel_graph

            Dm = arrays.zeros((n, n))
            for i in range(n):
                for j in range(n):
                    Dm[i, j] = Dinf[i][j]
            G = _get_gabriel_graph(Dm)
            fs = []
            for i in range(n):
                for j in range(n):
                    fs.append(gab[i][j] if G[i, j] else ~gab[i][j])
            P.require_all(fs, "gabriel-graph==brute-force-definition")
            reach = [[gab[i][j] for j in range(n)] for i in range(n)]
            for _ in range(1, cfg["shell"]):
                reach = [[f_or(reach[i][j], *[f_and(reach[i][k], gab[k][j]) for k in range(n) if k not in (i, j)]) if i != j else FALSE for j in range(n)] for i in range(n)]

            def allowed(i, j):
                return reach[i][j]

        def valid_next(i, j):
            others = [k for k in range(n) if k not in (i, j)]
            return f_and(heavier(j, i), allowed(i, j), *[f_or(~heavier(k, i), ~allowed(i, k), le(Dinf[i][j], Dinf[i][k])) for k in others])

        def has_next(i):
            return f_or(*[f_and(heavier(j, i), allowed(i, j)) for j in range(n) if j != i])

        P.require(Formula.const(all(lab[lab[i]] == lab[i] for i in range(n))), "labels-are-self-labelled-centres", {"labels": lab})
        for i in range(n):
            if lab[i] == i:
                P.require(~has_next(i), "centre-has-no-heavier-allowed-neighbour", {"centre": i, "labels": lab})
            else:
                same = [j for j in range(n) if j != i and lab[j] == lab[i]]
                P.require(f_or(*[valid_next(i, j) for j in same]), "point-follows-nearest-heavier-allowed-neighbour", {"point": i, "labels": lab})
        # the heaviest point is a centre
        P.require_all([f_or(Formula.const(lab[i] == i), *[heavier(j, i) for j in range(n) if j != i]) for i in range(n)], "heaviest-point-is-a-centre", {"labels": lab})
        # order independence
        perms = list(itertools.permutations(range(n))) if cfg["perms"] == "all" else [tuple(p) for p in cfg["perms"]]
        for pm in perms:
            if list(pm) == list(range(n)):
                continue
            lab2, _ = self._run(cfg, D, w, cut, scale, order=list(pm), X=X, cell=cell)
            same = all((lab[i] == lab[j]) == (lab2[i] == lab2[j]) for i in range(n) for j in range(n))
            P.require(Formula.const(same), "partition-independent-of-input-order", {"order": list(pm), "labels": lab, "labels_permuted": lab2})
        if cfg["mode"] == "cell":
            Xs = X.copy()
            Xs[0, 0] = X[0, 0] + cell[0] * 2
            lab3, _ = self._run(cfg, None, w, cut, scale, X=Xs, cell=cell)
            same = all((lab[i] == lab[j]) == (lab3[i] == lab3[j]) for i in range(n) for j in range(n))
            P.require(Formula.const(same), "partition-independent-of-periodic-image", {"labels": lab, "labels_shifted": lab3})
        return {"labels": lab}

    # ------------------------------------------------------------------ float replay
    def concrete(self, cfg, values):
        from skmatter.clustering import QuickShift
        from skmatter.clustering._quick_shift import _get_gabriel_graph
        from skmatter.metrics import periodic_pairwise_euclidean_distances as ppd

        n = cfg["n"]
        w = np.array([float(values.get(f"w_{i}", cfg["worder"].index(i) + 1)) for i in range(n)])
        viol = []
        scale = float(values.get("scale", 1.0))
        cut = np.array([float(values.get(f"cut_{i}", 1.0)) for i in range(n)])
        if cfg["mode"] == "cell":
            cell = np.array([1.5])
            X = np.array([[float(values.get(f"x_{i}_0", 0.4 * i))] for i in range(n)])
            D = ppd(X, X, squared=True, cell_length=cell)
        else:
            X = None
            D = np.zeros((n, n))
            pos = np.cumsum([0.0] + [float(values.get(f"g_{i}", 1.0 + 0.37 * i)) for i in range(n - 1)])
            for i in range(n):
                for j in range(i + 1, n):
                    D[i, j] = D[j, i] = (pos[j] - pos[i]) ** 2 if cfg.get("line") else float(values.get(f"d_{i}_{j}", 1.0 + i + 0.3 * j))

        def run(order, Xc=None):
            Dp = D[np.ix_(order, order)]
            if cfg["mode"] == "cell":
                Xu = X if Xc is None else Xc
                qs = QuickShift(dist_cutoff_sq=cut[order].copy(), scale=scale, metric_params={"cell_length": cell})
                qs.fit(Xu[order], samples_weight=w[order])
            elif cfg["mode"] == "cutoff":
                qs = QuickShift(dist_cutoff_sq=cut[order].copy(), scale=scale, metric=lambda A, B, squared=True, **kw: Dp.copy(), metric_params={"cell_length": None})
                qs.fit(np.zeros((n, 1)), samples_weight=w[order])
            else:
                qs = QuickShift(gabriel_shell=cfg["shell"], metric=lambda A, B, squared=True, **kw: Dp.copy(), metric_params={"cell_length": None})
                qs.fit(np.zeros((n, 1)), samples_weight=w[order])
            lab = [int(v) for v in qs.labels_]
            out = [None] * n
            for a in range(n):
                out[order[a]] = order[lab[a]]
            return out

        ident = list(range(n))
        lab = run(ident)
        Dinf = D.copy()
        np.fill_diagonal(Dinf, np.inf)
        eff = cut * scale**2
        if cfg["mode"] == "gabriel":
            gab = np.zeros((n, n), dtype=bool)
            for i in range(n):
                for j in range(n):
                    if i != j:
                        gab[i, j] = not any(D[i, k] + D[j, k] < D[i, j] for k in range(n) if k not in (i, j))
            G = _get_gabriel_graph(Dinf.copy())
            if not (G == gab).all():
                viol.append(("gabriel-graph==brute-force-definition", {"got": G.tolist(), "want": gab.tolist()}))
            reach = gab.copy()
            for _ in range(1, cfg["shell"]):
                reach = reach | ((reach.astype(int) @ gab.astype(int)) > 0)
            np.fill_diagonal(reach, False)
            allowed = reach
        else:
            allowed = np.zeros((n, n), dtype=bool)
            for i in range(n):
                for j in range(n):
                    if i != j:
                        allowed[i, j] = Dinf[i, j] < eff[i] or Dinf[i, j] <= Dinf[i].min()
        if not all(lab[lab[i]] == lab[i] for i in range(n)):
            viol.append(("labels-are-self-labelled-centres", lab))
        for i in range(n):
            cands = [j for j in range(n) if j != i and w[j] > w[i] and allowed[i, j]]
            if lab[i] == i:
                if cands:
                    viol.append(("centre-has-no-heavier-allowed-neighbour", {"centre": i, "labels": lab}))
            else:
                if not cands:
                    viol.append(("point-follows-nearest-heavier-allowed-neighbour", {"point": i, "labels": lab}))
                else:
                    dm = min(Dinf[i, j] for j in cands)
                    if not any(Dinf[i, j] <= dm and lab[j] == lab[i] for j in cands):
                        viol.append(("point-follows-nearest-heavier-allowed-neighbour", {"point": i, "labels": lab}))
        if lab[int(np.argmax(w))] != int(np.argmax(w)):
            viol.append(("heaviest-point-is-a-centre", lab))
        perms = list(itertools.permutations(range(n))) if cfg["perms"] == "all" else [tuple(p) for p in cfg["perms"]]
        for pm in perms:
            lab2 = run(list(pm))
            if not all((lab[i] == lab[j]) == (lab2[i] == lab2[j]) for i in range(n) for j in range(n)):
                viol.append(("partition-independent-of-input-order", {"order": list(pm), "labels": lab, "labels_permuted": lab2}))
                break
        if cfg["mode"] == "cell":
            Xs = X.copy()
            Xs[0, 0] += 3.0
            lab3 = run(ident, Xs)
            if not all((lab[i] == lab[j]) == (lab3[i] == lab3[j]) for i in range(n) for j in range(n)):
                viol.append(("partition-independent-of-periodic-image", {"labels": lab, "labels_shifted": lab3}))
        if viol:
            tie = any(abs(Dinf[i, j] - Dinf[i, k]) <= 1e-12 for i in range(n) for j in range(n) for k in range(j + 1, n) if i != j and i != k)
            if tie:
                viol = [("tags:distance-tie", None)] + viol
        return {"labels": lab}, viol

    def fix_values(self, cfg, new, model):
        for r, i in enumerate(cfg["worder"]):
            new[f"w_{i}"] = Fr(r + 1)
        for k in list(new):
            if k.startswith(("d_", "cut_", "g_")) or k == "scale":
                new[k] = abs(Fr(new[k])) + Fr(1, 4)
        return new

    def signature(self, cfg, clause, values, viol):
        names = sorted(set(v[0] for v in viol if not v[0].startswith("tags:")))
        tags = [v[0][5:] for v in viol if v[0].startswith("tags:")]
        return f"C16/{tags[0] if tags else 'no-tie'}/{cfg['mode']}/{'+'.join(names)}"


if __name__ == "__main__":
    sys.exit(runner.main(C16()))
