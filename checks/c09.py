"""C09 - calls never modify caller data or hyper-parameters; refits start from scratch."""
from __future__ import annotations

import copy
import os
import sys
from fractions import Fraction as Fr

sys.path.insert(0, os.path.dirname(os.path.dirname(os.path.abspath(__file__))))

import numpy as np

from symx import arrays, core, runner, linalg
from symx.core import Formula, f_and, f_or, TRUE, FALSE
from checks import sel_common as sc
from checks import cur_stubs, c15

F_ = sc._F


class Watch:
    """remembers caller-supplied arrays (object arrays make aliasing observable exactly as in numpy)"""

    def __init__(self):
        self.items = []

    def add(self, name, arr):
        self.items.append((name, arr, arr.copy()))
        return arr

    def formulas(self):
        out = []
        for name, arr, snap in self.items:
            same_shape = np.shape(arr) == np.shape(snap)
            fs = sc.arr_eq(arr, snap) if same_shape else [FALSE]
            out.append((name, fs))
        return out

    def float_changed(self):
        bad = []
        for name, arr, snap in self.items:
            if np.shape(arr) != np.shape(snap) or not np.array_equal(np.asarray(arr, dtype=float), np.asarray(snap, dtype=float), equal_nan=True):
                bad.append(name)
        return bad


def params_equal(a, b):
    if a.keys() != b.keys():
        return False
    for k in a:
        x, y = a[k], b[k]
        if x is y:
            continue
        if isinstance(x, np.ndarray) or isinstance(y, np.ndarray):
            if not (isinstance(x, np.ndarray) and isinstance(y, np.ndarray) and x.shape == y.shape):
                return False
            for u, v in zip(np.asarray(x, dtype=object).reshape(-1), np.asarray(y, dtype=object).reshape(-1)):
                r = u == v
                if not (r is True or (isinstance(r, Formula) and r.kind == "const" and r.a) or (not isinstance(r, Formula) and bool(r))):
                    return False
            continue
        r = x == y
        if isinstance(r, Formula):
            if not (r.kind == "const" and r.a):
                return False
        elif not bool(r):
            return False
    return True


def public_state(est):
    return {k: v for k, v in vars(est).items() if k.endswith("_") and not k.startswith("_")}


SELECTORS = [
    ("FPS", "sample", 4, 2, 0, {"n_to_select": 3, "initialize": 1}),
    ("FPS", "feature", 2, 4, 0, {"n_to_select": 2, "initialize": "random"}),
    ("FPS", "sample", 3, 2, 1, {"n_to_select": 2}),
    ("PCovFPS", "sample", 3, 2, 1, {"n_to_select": 2}),
    ("CUR", "feature", 3, 3, 0, {"n_to_select": 2}),
    ("CUR", "sample", 3, 3, 1, {"n_to_select": 2}),
    ("PCovCUR", "sample", 3, 2, 1, {"n_to_select": 2}),
    ("VoronoiFPS", "sample", 4, 2, 0, {"n_to_select": 2, "full_fraction": 0.5}),
    ("VoronoiFPS", "sample", 4, 2, 0, {"n_to_select": 2}),
    ("FPS", "feature", 2, 4, 0, {"n_to_select": 3, "score_threshold_type": "relative"}),
    ("CUR", "feature", 3, 3, 0, {"n_to_select": 2, "score_threshold_type": "relative"}),
]


class C09(runner.Check):
    pid = "C09"
    modules = sc.SEL_MODULES + ["skmatter.preprocessing._data", "skmatter.clustering._quick_shift", "skmatter.metrics._pairwise",
                                "skmatter.metrics._prediction_rigidities", "skmatter.neighbors._sparsekde"]
    linalg_stubs = linalg.LINALG_STUBS
    engine_opts = dict(pool=48, max_paths=3000, feas_ms=800, t3_ms=6000, t2_ms=6000, wall_s=1500, confirm_feas=False)
    expected_events = ("div0", "singular", "sqrt-neg")
    bounds_text = ("entry points: all selectors incl. VoronoiFPS (fit, transform, fit_transform, two-step refit histories: other data / with-y then without-y / "
                   "larger then smaller / repeated call), KernelPCovR.fit on a caller-supplied precomputed kernel with centring (factor family of C05), StandardFlexibleScaler, KernelNormalizer, SparseKernelCenterer, QuickShift (constructor + fit), SparseKDE "
                   "(constructor), periodic / Mahalanobis distances, orthogonalizers (copy=True), prediction rigidities; small symbolic shapes; every path of each call.")
    stubs = ["sklearn validators reproduce the aliasing contract for float64 C-order input (return the same object unless copy=True) - the worst case for purity",
             "CUR family decompositions uninterpreted", "tqdm -> plain iteration"]
    assumptions = ["aliasing model: float64, C-contiguous, writeable caller arrays (other dtypes/layouts are copied by validation and cannot be modified)"]
    outside = ["DirectionalConvexHull (qhull), SparseKDE.fit beyond the constructor, PCovR / KernelPCovR (except the precomputed-kernel configuration) / Ridge2FoldCV/OrthogonalRegression/reconstruction measures "
               "(they need decomposition stubs; their purity is not decided here)", "n_jobs > 1", "F-order / read-only buffers (copied by sklearn validation)"]

    def configs(self, tier):
        cf = []
        for i in range(len(SELECTORS)):
            for hist in ("purity", "refit-other-data", "refit-without-y", "refit-smaller", "repeat"):
                if hist == "refit-without-y" and not (SELECTORS[i][4] and SELECTORS[i][0] in ("FPS", "CUR")):
                    continue
                if hist == "refit-other-data" and SELECTORS[i][0] in ("CUR", "PCovCUR", "VoronoiFPS") and tier == "quick":
                    continue  # two independent symbolic CUR fits in one path: thorough tier only
                cf.append({"scenario": "selector", "sel": i, "hist": hist, "_cost": 4})
        for s in ("scaler", "kernel-normalizer", "sparse-centerer", "quickshift", "sparsekde-init", "pairwise", "orthogonalizers", "rigidities"):
            cf.append({"scenario": s, "_cost": 1})
        # KernelPCovR.fit on a caller-supplied precomputed kernel with centring: run through C05's harness and stubs (factor family), reported as C09
        cf.append({"scenario": "kpcovr-caller-kernel", "_cost": 8,
                   "c05": {"mode": "caller-kernel", "n": 4, "m": 2, "p": 1, "k": 1, "reg": "precomputed", "kernel": "precomputed", "center": True, "hv": 2, "family": {"V": "R35"}}})
        return cf

    def _c05(self):
        from checks.c05 import C05

        if not hasattr(self, "_c05_obj"):
            self._c05_obj = C05()
        return self._c05_obj

    def modules_for(self, cfg):
        if cfg["scenario"] == "kpcovr-caller-kernel":
            return list(self._c05().modules) + ["skmatter.preprocessing._data"]
        return self.modules

    def patches(self, cfg):
        if cfg["scenario"] == "kpcovr-caller-kernel":
            return self._c05().patches(cfg["c05"])
        p = cur_stubs.patches()
        if cfg["scenario"] == "selector" and SELECTORS[cfg["sel"]][0] == "VoronoiFPS" and "full_fraction" not in SELECTORS[cfg["sel"]][5]:
            from checks.c06 import StubClock

            self._clock = StubClock([True, False], 4)
            p["skmatter.sample_selection._voronoi_fps"] = {"time": self._tick}
        p["skmatter.clustering._quick_shift"] = {"tqdm": (lambda it, **k: it)}
        p["skmatter.metrics._pairwise"] = {"check_pairwise_arrays": c15._stub_check_pairwise_arrays, "_euclidean_distances": c15._stub_euclidean}
        return p

    def _tick(self):
        return self._clock()

    # ------------------------------------------------------------------ generic runner shared by symbolic and float sides
    def scenario(self, cfg, mk, W, note):
        """mk(name, shape, kind) creates an input array; W watches caller arrays; note(clause, ok, detail) records concrete facts.
        Returns nothing; all facts go through W / note.  The same code runs symbolically and on floats."""
        s = cfg["scenario"]
        if s == "selector":
            return self.sc_selector(cfg, mk, W, note)
        return getattr(self, "sc_" + s.replace("-", "_"))(cfg, mk, W, note)

    def sc_selector(self, cfg, mk, W, note):
        cls, d, n, m, p, params = SELECTORS[cfg["sel"]]
        if cls == "VoronoiFPS" and "full_fraction" not in params:
            from checks.c06 import StubClock
            import skmatter.sample_selection._voronoi_fps as V

            self._clock = StubClock([True, False], 4)  # deterministic calibration (re-created per path and per replay)
            if not self._symbolic:
                self._saved_time = V.time
                V.time = self._tick
        c = {"cls": cls, "dir": d, "n": n, "m": m, "p": p, "params": params}
        over = {}
        if cls in ("PCovFPS", "PCovCUR"):
            over["mixing"] = mk("mix", (), "unit")
        if cls in ("CUR", "PCovCUR") and self._symbolic:
            over["tolerance"] = 0
        if "score_threshold_type" in params:
            over["score_threshold"] = mk("thr", (), "pos")
        X = W.add("X", mk("x", (n, m), "data"))
        y = W.add("y", mk("y", (n, p), "data")) if p else None
        sel = sc.make_selector(c, **over)
        p0 = copy.copy(sel.get_params())
        with sc.quiet():
            r = sel.fit(X, y)
        note("fit-returns-self", r is sel)
        note("fit-leaves-hyper-parameters", params_equal(p0, sel.get_params()), {"before": repr(p0)[:200], "after": repr(sel.get_params())[:200]})
        if d == "feature":
            Xt = sel.transform(X)
            sel2 = sc.make_selector(c, **over)
            with sc.quiet():
                Xft = sel2.fit_transform(X, y)
            note("fit_transform==fit+transform", self.eq(Xt, Xft))
        hist = cfg["hist"]
        ref = None
        with sc.quiet():
            if hist == "refit-other-data":
                X2 = W.add("X2", mk("u", (n, m), "data"))
                y2 = W.add("y2", mk("v", (n, p), "data")) if p else None
                sel.fit(X2, y2)
                ref = sc.make_selector(c, **over).fit(X2, y2)
            elif hist == "refit-without-y":
                try:
                    sel.fit(X)
                    ref = sc.make_selector(c, **over).fit(X)
                except TypeError as e:
                    note("refit-without-y-succeeds", False, repr(e)[:160])
            elif hist == "refit-smaller":
                k = params["n_to_select"]
                if k > 1:
                    sel.n_to_select = k - 1
                    sel.fit(X, y)
                    ref = sc.make_selector(c, **dict(over, n_to_select=k - 1)).fit(X, y)
            elif hist == "repeat":
                ref = sc.make_selector(c, **over).fit(X, y)
        if ref is not None:
            a, b = public_state(sel), public_state(ref)
            note("refit-leaves-fresh-attribute-set", sorted(a) == sorted(b), {"refit": sorted(a), "fresh": sorted(b)})
            for k in sorted(set(a) & set(b)):
                if callable(a[k]):
                    continue
                note(f"refit-state-equals-fresh:{k}", self.eq(a[k], b[k]))

    def sc_scaler(self, cfg, mk, W, note):
        from skmatter.preprocessing import StandardFlexibleScaler

        X = W.add("X", mk("x", (3, 2), "data"))
        w = W.add("sample_weight", mk("w", (3,), "pos"))
        Z = W.add("Xnew", mk("z", (2, 2), "data"))
        s = StandardFlexibleScaler(column_wise=True)
        p0 = copy.copy(s.get_params())
        try:
            r = s.fit(X, sample_weight=w)
        except ValueError:
            return
        note("fit-returns-self", r is s)
        T = s.transform(Z)
        W.add("transformed", T)
        s.inverse_transform(T)
        note("fit-leaves-hyper-parameters", params_equal(p0, s.get_params()))
        try:
            note("fit_transform==fit+transform", self.eq(StandardFlexibleScaler(column_wise=True).fit_transform(X), StandardFlexibleScaler(column_wise=True).fit(X).transform(X)))
        except ValueError:
            pass  # unweighted variance below tolerance: rejected (C11)

    def sc_kernel_normalizer(self, cfg, mk, W, note):
        from skmatter.preprocessing import KernelNormalizer

        F = mk("f", (3, 2), "data")
        K = W.add("K", F @ F.T)
        Kt = W.add("Ktest", mk("g", (2, 2), "data") @ F.T)
        w = W.add("sample_weight", mk("w", (3,), "pos"))
        kn = KernelNormalizer()
        p0 = copy.copy(kn.get_params())
        r = kn.fit(K, sample_weight=w)
        note("fit-returns-self", r is kn)
        kn.transform(Kt)
        kn.transform(K)
        note("fit-leaves-hyper-parameters", params_equal(p0, kn.get_params()))
        # refit without weights leaves the state of a fresh estimator
        kn.fit(K)
        fresh = KernelNormalizer().fit(K)
        a, b = public_state(kn), public_state(fresh)
        note("refit-leaves-fresh-attribute-set", sorted(a) == sorted(b), {"refit": sorted(a), "fresh": sorted(b)})
        for k in sorted(set(a) & set(b)):
            note(f"refit-state-equals-fresh:{k}", self.eq(a[k], b[k]))

    def sc_sparse_centerer(self, cfg, mk, W, note):
        from skmatter.preprocessing import SparseKernelCenterer

        F = mk("f", (3, 2), "data")
        A = mk("a", (1, 2), "data")
        Knm = W.add("Knm", F @ A.T)
        Kmm = W.add("Kmm", A @ A.T)
        w = W.add("sample_weight", mk("w", (3,), "pos"))
        s = SparseKernelCenterer()
        r = s.fit(Knm, Kmm, sample_weight=w)
        note("fit-returns-self", r is s)
        s.transform(Knm)
        s2 = SparseKernelCenterer()
        note("fit_transform==fit+transform", self.eq(s2.fit_transform(Knm, Kmm, sample_weight=w), SparseKernelCenterer().fit(Knm, Kmm, sample_weight=w).transform(Knm)))

    def sc_quickshift(self, cfg, mk, W, note):
        from skmatter.clustering import QuickShift

        X = W.add("X", mk("x", (3, 1), "data"))
        w = W.add("samples_weight", mk("w", (3,), "pos"))
        cut = W.add("dist_cutoff_sq", mk("c", (3,), "pos"))
        scale = mk("scale", (), "pos")
        qs = QuickShift(dist_cutoff_sq=cut, scale=scale)
        r = qs.fit(X, samples_weight=w)
        note("fit-returns-self", r is qs)

    def sc_sparsekde_init(self, cfg, mk, W, note):
        from skmatter.neighbors import SparseKDE

        X = W.add("descriptors", mk("x", (3, 1), "data"))
        w = W.add("weights", mk("w", (3,), "pos"))
        SparseKDE(X, w)

    def sc_pairwise(self, cfg, mk, W, note):
        from skmatter.metrics import periodic_pairwise_euclidean_distances as ppd, pairwise_mahalanobis_distances as pmd

        X = W.add("X", mk("x", (2, 1), "unitbox"))
        Y = W.add("Y", mk("y", (1, 1), "unitbox"))
        cell = W.add("cell_length", mk("cell", (1,), "one"))
        P = W.add("cov_inv", mk("p", (1, 1), "pos"))
        ppd(X, Y, cell_length=cell)
        ppd(X, Y, squared=True, cell_length=cell)
        pmd(X, Y, P, cell_length=cell)
        pmd(X, Y, P, cell_length=cell, squared=True)

    def sc_orthogonalizers(self, cfg, mk, W, note):
        from skmatter.utils import X_orthogonalizer, Y_feature_orthogonalizer, Y_sample_orthogonalizer

        X = W.add("x1", mk("x", (3, 2), "data"))
        y = W.add("y", mk("y", (3, 1), "data"))
        X_orthogonalizer(X, c=0, tol=0, copy=True)
        Y_feature_orthogonalizer(y, X[:, :1], tol=0, copy=True)
        Y_sample_orthogonalizer(y, X, y[:2], X[:2], tol=0, copy=True)

    def sc_rigidities(self, cfg, mk, W, note):
        from skmatter.metrics import local_prediction_rigidity, componentwise_prediction_rigidity

        tr = [W.add("train0", mk("a", (2, 2), "data")), W.add("train1", mk("b", (1, 2), "data"))]
        te = [W.add("test0", mk("t", (1, 2), "data"))]
        comp = np.array([1, 1])
        compc = comp.copy()
        alpha = mk("alpha", (), "pos")
        local_prediction_rigidity(tr, te, alpha)
        componentwise_prediction_rigidity(tr, te, alpha, comp)
        note("comp_dims-unchanged", bool((comp == compc).all()))

    # ------------------------------------------------------------------ symbolic side
    def eq(self, a, b):
        """term / float equality as a Python bool (symbolic: identical normal forms)"""
        if a is None or b is None:
            return a is b
        A, B = np.asarray(a, dtype=object), np.asarray(b, dtype=object)
        if A.shape != B.shape:
            return False
        for u, v in zip(A.reshape(-1), B.reshape(-1)):
            if isinstance(u, (core.SReal,)) or isinstance(v, (core.SReal,)):
                r = u == v
                if isinstance(r, Formula):
                    if not (r.kind == "const" and r.a):
                        # not identical as normal forms: let the solver decide on this path
                        self._pending.append(r)
                elif not r:
                    return False
            else:
                try:
                    if isinstance(u, float) and isinstance(v, float):
                        if not (u == v or (u != u and v != v) or abs(u - v) <= 1e-9 * max(1.0, abs(u), abs(v))):
                            return False
                    elif not bool(u == v):
                        return False
                except Exception:
                    return False
        return True

    def harness(self, c, cfg, P):
        if cfg["scenario"] == "kpcovr-caller-kernel":
            return self._c05().harness(c, cfg["c05"], P)
        cur_stubs.reset()
        self._symbolic = True
        self._pending = []
        if cfg["scenario"] == "selector" and SELECTORS[cfg["sel"]][0] in ("CUR", "PCovCUR"):
            P.hyp = lambda: f_and(*cur_stubs.NONZERO)
        W = Watch()

        def mk(name, shape, kind):
            if shape == ():
                if kind == "unit":
                    v = c.sym(name)
                    c.assume(v >= 0)
                    c.assume(v < 1)
                    return v
                return c.sym(name, positive=True)
            if kind == "pos":
                return arrays.symbols(name, shape, positive=True)
            if kind == "one":
                return arrays.exact([Fr(3, 2)] * shape[0])
            a = arrays.symbols(name, shape)
            if kind == "unitbox":
                for v in a.reshape(-1):
                    c.assume(v <= 1)
                    c.assume(v >= -1)
            return a

        def note(clause, ok, detail=None):
            pend, self._pending = self._pending, []
            if ok and pend:
                P.require_all(pend, clause, detail)
            else:
                P.require(Formula.const(bool(ok)), clause, detail)

        self.scenario(cfg, mk, W, note)
        for name, fs in W.formulas():
            P.require_all(fs, f"caller-array-unchanged:{name}")
        return {"ok": True}

    # ------------------------------------------------------------------ float replay
    def concrete(self, cfg, values):
        if cfg["scenario"] == "kpcovr-caller-kernel":
            return self._c05().concrete(cfg["c05"], values)
        self._symbolic = False
        self._pending = []
        W = Watch()
        viol = []
        rng = np.random.RandomState(5)

        def mk(name, shape, kind):
            if shape == ():
                v = values.get(name)
                return float(v) if v is not None else (0.3 if kind == "unit" else 1.7)
            out = np.empty(shape, dtype=float)
            for idx in np.ndindex(*shape):
                key = name + "".join(f"_{i}" for i in idx)
                v = values.get(key)
                if v is not None:
                    out[idx] = float(v)
                elif kind == "one":
                    out[idx] = 1.5
                elif kind == "pos":
                    out[idx] = 0.5 + rng.rand()
                elif kind == "unitbox":
                    out[idx] = rng.rand() * 2 - 1
                else:
                    out[idx] = rng.randn()
            return out

        def note(clause, ok, detail=None):
            if not ok:
                viol.append((clause, detail))

        try:
            self.scenario(cfg, mk, W, note)
        finally:
            if getattr(self, "_saved_time", None) is not None:
                import skmatter.sample_selection._voronoi_fps as V

                V.time = self._saved_time
                self._saved_time = None
        for name in W.float_changed():
            viol.append((f"caller-array-unchanged:{name}", None))
        return {"ok": True}, viol

    def same_outcome(self, cfg, sym_out, real_out):
        return True

    def fix_values(self, cfg, new, model):
        if cfg["scenario"] == "kpcovr-caller-kernel":
            return self._c05().fix_values(cfg["c05"], new, model)
        return super().fix_values(cfg, new, model)

    def signature(self, cfg, clause, values, viol):
        names = sorted(set(v[0] for v in viol))
        who = cfg["scenario"]
        if who == "selector":
            s = SELECTORS[cfg["sel"]]
            who = f"{s[0]}/{s[1]}{'/calibrated' if s[0] == 'VoronoiFPS' and 'full_fraction' not in s[5] else ''}/{cfg['hist']}"
        return f"C09/{who}/{'+'.join(names)[:240]}"


if __name__ == "__main__":
    sys.exit(runner.main(C09()))
