"""C04 - PCovR interpolates optimally and monotonically between PCA and regression."""
from __future__ import annotations

import itertools
import os
import sys

sys.path.insert(0, os.path.dirname(os.path.dirname(os.path.abspath(__file__))))

import numpy as np

from symx import arrays, core, runner, linalg
from symx.core import Formula, f_and, f_or, TRUE, FALSE
from checks import sel_common as sc
from checks import pcovr_common as pc
from checks.c03 import cols_equal_up_to_sign
from checks.c14 import fro2

F_ = sc._F


def proj(B):
    """orthogonal projector onto the span of the orthonormal columns of B"""
    return B @ B.T


class C04(runner.Check):
    pid = "C04"
    modules = pc.MODULES
    linalg_stubs = linalg.LINALG_STUBS
    engine_opts = dict(pool=48, max_paths=3000, feas_ms=1500, t3_ms=12000, t2_ms=12000, wall_s=1500)
    expected_events = ("singular", "sqrt-neg", "div0")
    bounds_text = ("factor family X = U diag(s) V^T (4x2; 4x3 thorough), Yhat = U diag(g) (regressed targets; precomputed or through the OLS / Ridge stand-ins), spectra, "
                   "targets and mixing symbolic; k in 1..min(n,m); competitors: every k-subset of the left frame vectors (exhaustive), PCA's and the regression's subspace, "
                   "and a one-parameter rotation of PCovR's own subspace towards each discarded direction (rational parametrisation, symbolic angle); two symbolic mixings a < b.")
    stubs = ["verified-frame decompositions as in C03/C14", "sklearn regressors -> normal equations"]
    assumptions = ["exact real arithmetic", "frames inside the library", "retained eigenvalues > tol, simple spectrum where component vectors are compared"]
    outside = ["arbitrary competitor subspaces (Ky Fan over the whole Grassmannian is a quantifier alternation out of solver reach)", "frames outside the library"]

    def configs(self, tier):
        cf = []

        def add(mode, k, p, V, reg, space, n=4, m=2, cost=2, **fam):
            f = {"V": V}
            f.update(fam)
            cf.append({"mode": mode, "n": n, "m": m, "p": p, "k": k, "reg": reg, "space": space, "family": f, "_cost": cost})

        for space in ("feature", "sample"):
            add("pca-limit", 1, 2, "R35", "precomputed", space)
            add("regression-limit", 2, 2, "R513", "ols", space, remainder=True, cost=3)
            add("optimal", 1, 2, "R35", "precomputed", space, cost=4)
            add("monotone", 1, 2, "I", "precomputed", space, cost=4)
        add("optimal", 1, 2, "R35", "ridge", "feature", cost=6)
        if tier == "thorough":
            for space in ("feature", "sample"):
                add("pca-limit", 2, 2, "R513", "ridge", space, cost=4)
                add("regression-limit", 1, 1, "R35", "ols", space, remainder=True, cost=3)
                add("optimal", 2, 3, "H122", "precomputed", space, m=3, cost=40)
                add("optimal", 1, 2, "R35R513", "ridge", space, cost=8)
                add("monotone", 1, 2, "R35", "ridge", space, cost=8)
                add("monotone", 2, 3, "R35_01", "precomputed", space, m=3, cost=40)
        return cf

    def patches(self, cfg):
        return pc.patches()

    def _fit(self, cfg, X, Y, a, k, alpha, sym=True):
        from skmatter.decomposition import PCovR

        return PCovR(mixing=a, n_components=k, space=cfg["space"], svd_solver="full", regressor=pc.regressor_for(cfg, sym, alpha), tol=1e-12).fit(X, Y)

    def harness(self, c, cfg, P):
        fam = pc.make_family(c, cfg)
        X = fam["X"]
        Y = fam["Yin"] if cfg["reg"] == "precomputed" else fam["Y"]
        U, s, g, r = fam["U"], fam["s"], fam["g"], fam["r"]
        for si in s:
            c.assume(si * si > core.Fraction("1e-10"))
        alpha = c.sym("alpha", positive=True) if cfg["reg"] == "ridge" else None
        k, n, m = cfg["k"], cfg["n"], cfg["m"]
        mode = cfg["mode"]
        tolq = core.Fraction("1e-12")
        if mode == "pca-limit":
            est = self._fit(cfg, X, Y, 1, k, alpha)
            T = est.transform(X)
            # PCA of the centred family: coordinates U diag(s) in decreasing order of s
            order = arrays.argsort(-arrays.array([si * si for si in s], dtype=object))
            for i in range(r - 1):
                c.assume(s[order[i]] * s[order[i]] > s[order[i + 1]] * s[order[i + 1]])
            Tp = arrays.zeros((n, k))
            for j in range(k):
                Tp[:, j] = U[:, order[j]] * s[order[j]]
            P.require_all(cols_equal_up_to_sign(T, Tp), "mixing=1:coordinates==PCA(up to sign)")
            Uk = U[:, [int(i) for i in order[:k]]]
            P.require_all(sc.arr_eq(est.inverse_transform(T), proj(Uk) @ X), "mixing=1:reconstruction==PCA")
            return {"k": k}
        if mode == "regression-limit":
            est = self._fit(cfg, X, Y, 0, k, alpha)
            for i in range(k):
                c.assume(est.explained_variance_[i] * (n - 1) > tolq)
            # unregularised least squares predictions: projection of Y on the column space of X
            ols = proj(U) @ Y
            rankG = sum(1 for _ in g)
            P.require_all(sc.arr_eq(est.predict(X), ols), "mixing=0,k>=targets:predictions==least-squares")
            return {"k": k}
        a = pc.mixing_symbol(c)
        if mode == "optimal":
            est = self._fit(cfg, X, Y, a, k, alpha)
            for i in range(k):
                c.assume(est.explained_variance_[i] * (n - 1) > tolq)
            Yhat = Y if cfg["reg"] == "precomputed" else est.regressor_.predict(X).reshape(n, -1)
            T = est.transform(X)
            # projector on PCovR's latent subspace from its own coordinates (T^T T is diagonal: decided in C14)
            PT = arrays.zeros((n, n))
            for j in range(k):
                t = T[:, j].reshape(n, 1)
                PT = PT + (t @ t.T) / (t.T @ t)[0, 0]

            def objective(Pm):
                return a * fro2(X - Pm @ X) + (1 - a) * fro2(Yhat - Pm @ Yhat)

            mine = objective(PT)
            # (i) every k-subset of the left frame vectors, incl. PCA's and the regression's subspaces
            for J in itertools.combinations(range(r), k):
                P.require(F_(mine <= objective(proj(U[:, list(J)]))), "objective<=every-frame-subspace(incl. PCA and regression)", {"subset": list(J)})
            # (ii) rotation of the latent subspace towards each frame direction by a symbolic angle: (1-t^2, 2t)/(1+t^2)
            tpar = c.sym("tpar")
            cs, sn = (1 - tpar * tpar) / (1 + tpar * tpar), (2 * tpar) / (1 + tpar * tpar)
            for j in range(k):
                tj = T[:, j].reshape(n, 1)
                uj = tj  # not normalised: handled in the projector
                for d in range(r):
                    v = U[:, d].reshape(n, 1)
                    # component of v orthogonal to the latent space
                    w = v - PT @ v
                    ww = (w.T @ w)[0, 0]
                    nz = ww != 0
                    if not (bool(nz) if isinstance(nz, Formula) else nz):
                        continue
                    tn = (tj.T @ tj)[0, 0]
                    # rotated unit vector: cos * t_j/|t_j| + sin * w/|w|  (squared norms only: use scaled vectors)
                    # projector onto span{others, rot}: others unchanged
                    Prot = arrays.zeros((n, n))
                    for j2 in range(k):
                        if j2 != j:
                            t2 = T[:, j2].reshape(n, 1)
                            Prot = Prot + (t2 @ t2.T) / (t2.T @ t2)[0, 0]
                    # rot rot^T with rot = cs*e1 + sn*e2, e1 = tj/sqrt(tn), e2 = w/sqrt(ww): cross terms need sqrt(tn*ww)
                    rt = core.ssqrt(tn * ww)
                    Prot = Prot + cs * cs * (tj @ tj.T) / tn + sn * sn * (w @ w.T) / ww + cs * sn * (tj @ w.T + w @ tj.T) / rt
                    P.require(F_(mine <= objective(Prot)), "objective<=rotated-own-subspace", {"component": j, "towards": d})
            return {"k": k}
        # monotone in mixing
        b = c.sym("mixb", nonneg=True)
        c.assume(b <= 1)
        c.assume(a < b)
        ea = self._fit(cfg, X, Y, a, k, alpha)
        eb = self._fit(cfg, X, Y, b, k, alpha)
        for e in (ea, eb):
            for i in range(k):
                c.assume(e.explained_variance_[i] * (n - 1) > tolq)
        Yr = Y.reshape(n, -1)

        def losses(e):
            T = e.transform(X)
            return fro2(X - e.inverse_transform(T)), fro2(Yr - np.asarray(e.predict(T=T), dtype=object).reshape(n, -1))

        lxa, lya = losses(ea)
        lxb, lyb = losses(eb)
        P.require(F_(lxb <= lxa), "reconstruction-loss-nonincreasing-in-mixing")
        P.require(F_(lyb >= lya), "regression-loss-nondecreasing-in-mixing")
        return {"k": k}

    # ------------------------------------------------------------------ float replay
    def concrete(self, cfg, values):
        import warnings

        X, Y, Yin = pc.float_family(cfg, values)
        if cfg["reg"] == "precomputed":
            Y = Yin
        k, n, m = cfg["k"], cfg["n"], cfg["m"]
        alpha = float(values.get("alpha", 0.5))
        viol = []
        mode = cfg["mode"]
        tol = 1e-6

        def close(A, B):
            A, B = np.asarray(A, dtype=float), np.asarray(B, dtype=float)
            return A.shape == B.shape and np.allclose(A, B, atol=tol * max(1.0, np.abs(B).max() if B.size else 1.0))

        with warnings.catch_warnings():
            warnings.simplefilter("ignore")
            if mode == "pca-limit":
                est = self._fit(cfg, X, Y, 1.0, k, alpha, sym=False)
                Uu, ss, Vt = np.linalg.svd(X, full_matrices=False)
                if np.min(np.abs(np.diff(ss))) < 1e-7:
                    return {"k": k}, []
                Tp = Uu[:, :k] * ss[:k]
                T = est.transform(X)
                if not all(close(T[:, j], Tp[:, j]) or close(T[:, j], -Tp[:, j]) for j in range(k)):
                    viol.append(("mixing=1:coordinates==PCA(up to sign)", None))
                if not close(est.inverse_transform(T), Uu[:, :k] @ Uu[:, :k].T @ X):
                    viol.append(("mixing=1:reconstruction==PCA", None))
            elif mode == "regression-limit":
                est = self._fit(cfg, X, Y, 0.0, k, alpha, sym=False)
                if np.any(est.explained_variance_ * (n - 1) <= 1e-9):
                    return {"k": k}, []
                ols = X @ np.linalg.lstsq(X, Y, rcond=None)[0]
                if not close(est.predict(X), ols):
                    viol.append(("mixing=0,k>=targets:predictions==least-squares", float(np.abs(est.predict(X) - ols).max())))
            elif mode == "optimal":
                a = float(values.get("mix", 0.5))
                est = self._fit(cfg, X, Y, a, k, alpha, sym=False)
                if np.any(est.explained_variance_ * (n - 1) <= 1e-9):
                    return {"k": k}, []
                Yhat = Y if cfg["reg"] == "precomputed" else est.regressor_.predict(X).reshape(n, -1)
                T = est.transform(X)
                Q, _ = np.linalg.qr(T)
                PT = Q @ Q.T

                def obj(Pm):
                    return a * np.linalg.norm(X - Pm @ X) ** 2 + (1 - a) * np.linalg.norm(Yhat - Pm @ Yhat) ** 2

                mine = obj(PT)
                Kt = a * X @ X.T + (1 - a) * Yhat @ Yhat.T
                w, V = np.linalg.eigh(Kt)
                best = obj(V[:, -k:] @ V[:, -k:].T)
                if mine > best + 1e-7 * max(1.0, abs(best), np.trace(Kt)):
                    viol.append(("objective<=every-frame-subspace(incl. PCA and regression)", {"mine": float(mine), "optimum": float(best)}))
            else:
                a, b = float(values.get("mix", 0.2)), float(values.get("mixb", 0.8))
                if not a < b:
                    a, b = 0.2, 0.8
                ea, eb = self._fit(cfg, X, Y, a, k, alpha, sym=False), self._fit(cfg, X, Y, b, k, alpha, sym=False)
                Yr = Y.reshape(n, -1)

                def losses(e):
                    T = e.transform(X)
                    return np.linalg.norm(X - e.inverse_transform(T)) ** 2, np.linalg.norm(Yr - e.predict(T=T).reshape(n, -1)) ** 2

                (lxa, lya), (lxb, lyb) = losses(ea), losses(eb)
                sc_ = max(1.0, np.linalg.norm(X) ** 2, np.linalg.norm(Yr) ** 2)
                if lxb > lxa + 1e-7 * sc_:
                    viol.append(("reconstruction-loss-nonincreasing-in-mixing", [float(lxa), float(lxb)]))
                if lyb < lya - 1e-7 * sc_:
                    viol.append(("regression-loss-nondecreasing-in-mixing", [float(lya), float(lyb)]))
        return {"k": k}, viol

    def fix_values(self, cfg, new, model):
        for i, k_ in enumerate(sorted(x for x in new if x.startswith("s_"))):
            new[k_] = abs(new[k_]) + 1 + i
        for name, dflt in (("mix", core.Fraction(1, 4)), ("mixb", core.Fraction(3, 4)), ("alpha", core.Fraction(2))):
            if name in new:
                new[name] = model.get(name) if model.get(name) is not None else dflt
        return new

    def same_outcome(self, cfg, sym_out, real_out):
        return sym_out.get("k") == real_out.get("k")

    def signature(self, cfg, clause, values, viol):
        names = sorted(set(v[0] for v in viol))
        return f"C04/{cfg['mode']}/{cfg['space']}/{cfg['reg']}/{'+'.join(names)[:200]}"


if __name__ == "__main__":
    sys.exit(runner.main(C04()))
