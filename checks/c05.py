"""C05 - KernelPCovR agrees with PCovR and its kernel plumbing; scores any held-out set."""
from __future__ import annotations

import os
import sys

sys.path.insert(0, os.path.dirname(os.path.dirname(os.path.abspath(__file__))))

import numpy as np

from symx import arrays, core, runner, linalg
from symx.arrays import is_sym, SymArray
from symx.core import Formula, f_and, f_or, TRUE, FALSE
from checks import sel_common as sc
from checks import pcovr_common as pc
from checks.c03 import cols_equal_up_to_sign
from checks.c14 import fro2

F_ = sc._F


def stub_pairwise_kernels(X, Y=None, metric="linear", filter_params=False, n_jobs=None, **kw):
    """polynomial-type kernels by their definition: linear, poly(integer degree), precomputed"""
    if not is_sym(X) and not is_sym(Y):
        from sklearn.metrics.pairwise import pairwise_kernels as real

        return real(X, Y, metric=metric, filter_params=filter_params, n_jobs=n_jobs, **kw)
    if metric == "precomputed":
        if Y is not None and X.shape[1] != Y.shape[0]:
            raise ValueError("Precomputed metric requires shape (n_queries, n_indexed).")
        if Y is None and X.shape[0] != X.shape[1]:
            raise ValueError("Precomputed kernel must be square")
        return X
    Yv = X if Y is None else Y
    G = X @ Yv.T
    if metric == "linear":
        return G
    if metric in ("poly", "polynomial"):
        gamma = kw.get("gamma")
        gamma = (core.Fraction(1, X.shape[1])) if gamma is None else gamma
        deg = int(kw.get("degree") or 3)
        c0 = kw.get("coef0", 1)
        c0 = 1 if c0 is None else c0
        return (G * gamma + c0) ** deg
    raise core.Unsupported(f"kernel {metric} (transcendental kernels are outside the symbolic claim)")


def name_array(c, A, label):
    A = np.asarray(A, dtype=object)
    out = np.empty(A.shape, dtype=object)
    for idx in np.ndindex(*A.shape):
        out[idx] = c.name(A[idx], label) if isinstance(A[idx], core.SReal) else A[idx]
    return out.view(SymArray)


class KRRStub:
    """closed-form kernel ridge on a precomputed kernel: dual_coef_ = (K + alpha I)^+ Y"""

    def __init__(self, alpha=1, kernel="linear", gamma=None, degree=3, coef0=1, kernel_params=None):
        self.alpha, self.kernel, self.gamma, self.degree, self.coef0, self.kernel_params = alpha, kernel, gamma, degree, coef0, kernel_params

    def get_params(self, deep=True):
        return {k: getattr(self, k) for k in ("alpha", "kernel", "gamma", "degree", "coef0", "kernel_params")}

    def set_params(self, **p):
        for k, v in p.items():
            setattr(self, k, v)
        return self

    def fit(self, K, y):
        n = K.shape[0]
        A = K + self.alpha * arrays.eye(n)
        self.dual_coef_ = linalg.pinv(A) @ y.reshape(n, -1)
        if y.ndim == 1:
            self.dual_coef_ = self.dual_coef_.reshape(-1)
        self.X_fit_ = K
        return self

    def _check_n_features(self, X, reset):
        self.n_features_in_ = X.shape[1]


def stub_check_krr_fit(regressor, K, X, y):
    if not is_sym(K) and not is_sym(y):
        return _REAL["check_krr_fit"](regressor, K, X, y)
    if isinstance(regressor, KRRStub) and hasattr(regressor, "dual_coef_"):
        return regressor
    st = KRRStub(alpha=getattr(regressor, "alpha", 1), kernel="precomputed")
    return st.fit(K, y)


_REAL = {}


class C05(runner.Check):
    pid = "C05"
    modules = pc.MODULES
    linalg_stubs = linalg.LINALG_STUBS
    engine_opts = dict(pool=56, max_paths=3000, feas_ms=1500, t3_ms=12000, t2_ms=12000, wall_s=1800)
    expected_events = ("singular", "sqrt-neg", "div0")
    bounds_text = ("training features on the factor family X = U diag(s) V^T (4x2), targets Y = U diag(g) (+ remainder), spectra / targets / mixing / ridge strength symbolic; "
                   "held-out sets fully symbolic with 1, 2, 4 (= n) and 5 (> n) rows; kernels linear and poly(degree 2) by definition, and precomputed; center False / True; "
                   "regressors None (kernel ridge stand-in), fitted kernel ridge, precomputed; n_components 1..2.")
    stubs = ["sklearn pairwise_kernels -> definition of linear / polynomial / precomputed kernels", "sklearn KernelRidge -> closed-form dual coefficients",
             "scipy.linalg.svd -> verified-frame decomposition", "np.linalg.lstsq / pinv -> closed forms", "KernelNormalizer runs unmodified (decided separately in C12)"]
    assumptions = ["exact real arithmetic", "frames inside the library", "retained eigenvalues > tol and simple where component vectors are compared"]
    outside = ["rbf / sigmoid / cosine kernels (transcendental: not encoded)", "kernel PCA equivalence at mixing = 1", "n_jobs",
               "value of score for a single held-out row (acceptance and transform/predict are decided for it, the loss identity only for >= 2 rows)",
               "held-out scoring with center=True (recorded finding: K_VV cannot be centred by the fitted normaliser)"]

    def configs(self, tier):
        cf = []

        def add(mode, k=1, p=1, V="R35", reg="krr", kernel="linear", center=False, hv=2, cost=3, coef0=None, **fam):
            f = {"V": V}
            f.update(fam)
            cf.append({"mode": mode, "n": 4, "m": 2, "p": p, "k": k, "reg": reg, "kernel": kernel, "center": center, "hv": hv, "family": f, "_cost": cost})
            if coef0 is not None:
                cf[-1]["coef0"] = coef0

        for hv in (1, 2, 4, 5):
            add("score", hv=hv, cost=4 + hv)
        add("score", hv=2, reg="precomputed", k=2, cost=6)
        add("pcovr-equiv", k=1, reg="krr", cost=5)
        add("pcovr-equiv", k=2, reg="krr", V="R513", cost=8, remainder=True)
        add("precomputed-equiv", k=1, kernel="linear", cost=5)
        # (mode "caller-kernel" - a caller-supplied precomputed kernel comes back unchanged from fit - is run by C09 through this harness)
        add("center-equiv", k=1, center=True, cost=8)
        add("regressors", k=1, cost=5)
        add("refit-center", k=1, center=True, reg="precomputed", cost=10)  # history: fit with center=True, set_params(center=False), fit again
        add("score", hv=2, k=1, kernel="poly", V="I", coef0=0, cost=12)  # homogeneous polynomial kernel: a zero-valued kernel parameter must be forwarded
        if tier == "thorough":
            add("precomputed-equiv", k=1, kernel="poly", V="I", coef0=0, cost=40)
            add("precomputed-equiv", k=1, kernel="poly", V="I", cost=60)
            for hv in (1, 3, 4, 5):
                add("score", hv=hv, k=2, reg="precomputed", cost=10)
                add("score", hv=hv, k=1, kernel="poly", V="I", cost=15)
            add("pcovr-equiv", k=2, reg="krr", V="F35", cost=10, remainder=True)
            add("center-equiv", k=2, center=True, V="R513", cost=20)
        return cf

    def patches(self, cfg):
        import skmatter.utils._pcovr_utils as U

        _REAL["check_krr_fit"] = U.check_krr_fit
        p = pc.patches()
        p["skmatter.decomposition._kernel_pcovr"] = {"linalg": pc._ScipyLinalg, "svds": pc.stub_svds, "randomized_svd": pc.stub_randomized_svd, "svd_flip": pc.stub_svd_flip,
                                                     "pairwise_kernels": stub_pairwise_kernels, "check_krr_fit": stub_check_krr_fit}
        return p

    # ------------------------------------------------------------------
    def _kp(self, cfg, a, alpha, kernel=None, center=None, regressor="auto", sym=True, k=None):
        from skmatter.decomposition import KernelPCovR
        from sklearn.kernel_ridge import KernelRidge

        kernel = kernel or cfg["kernel"]
        kw = dict(kernel=kernel, gamma=1 if kernel == "poly" else None, degree=2 if kernel == "poly" else 3, coef0=cfg.get("coef0", 1))
        if regressor == "auto":
            if cfg["reg"] == "precomputed":
                regressor = "precomputed"
            elif sym:
                regressor = KRRStub(alpha=alpha, **kw)
            else:
                regressor = KernelRidge(alpha=alpha, **kw)
        return KernelPCovR(mixing=a, n_components=k or cfg["k"], svd_solver="full", tol=1e-12, center=cfg["center"] if center is None else center, regressor=regressor, **kw)

    def _isinstance_patch(self):
        pass

    def harness(self, c, cfg, P):
        import skmatter.decomposition._kernel_pcovr as KM

        # KernelPCovR.fit checks isinstance(regressor, KernelRidge): let the closed-form stand-in pass that check
        KM.KernelRidge = (KRRStub, KM.KernelRidge) if not isinstance(KM.KernelRidge, tuple) else KM.KernelRidge
        try:
            return self._harness(c, cfg, P)
        except ZeroDivisionError:
            # plain Python floats (zeros written by the analysed code into object arrays) divide by zero on the fully
            # degenerate path where every eigenvalue of the modified kernel is below tol: same as the div0 event
            c.event("div0", "python float division by zero")
        finally:
            if isinstance(KM.KernelRidge, tuple):
                KM.KernelRidge = KM.KernelRidge[1]

    def _harness(self, c, cfg, P):
        fam = pc.make_family(c, cfg)
        X, U = fam["X"], fam["U"]
        Y = fam["Y"]
        for si in fam["s"]:
            c.assume(si * si > core.Fraction("1e-10"))
        a = pc.mixing_symbol(c)
        alpha = c.sym("alpha", positive=True)
        n, m, k, p = cfg["n"], cfg["m"], cfg["k"], cfg["p"]
        tolq = core.Fraction("1e-12")
        mode = cfg["mode"]
        hv = cfg["hv"]
        Xv = arrays.symbols("v", (hv, m))
        Yv = arrays.symbols("w", (hv, p))
        Yfit = fam["Yin"] if cfg["reg"] == "precomputed" else Y
        if mode == "caller-kernel":
            # the caller's precomputed kernel (here the linear kernel of the family) must come back from fit unchanged, also with centring
            # (the family is centred, so a constant offset c0 * 1 1^T makes the centring step a real change of the matrix)
            KNN = X @ X.T + arrays.ones((n, n)) * c.sym("koff", positive=True)
            K0 = np.array(KNN, dtype=object).copy()
            ep = self._kp(cfg, a, alpha)
            ep.fit(KNN, Yfit)
            P.require_all(sc.arr_eq(KNN, K0), "caller-supplied-kernel-unchanged-by-fit")
            return {"k": k}
        est = self._kp(cfg, a, alpha)
        est.fit(X, Yfit)

        def K_of(A, B=None):
            return stub_pairwise_kernels(A, B, metric=cfg["kernel"], gamma=1 if cfg["kernel"] == "poly" else None, degree=2, coef0=cfg.get("coef0", 1))

        if mode == "score":
            # abstraction by naming: the score identity is a statement about how score() combines the fitted projectors with
            # the kernel blocks; the (large) entries of pkt_ / pky_ are replaced by atoms carrying their definitions
            est.pkt_ = name_array(c, est.pkt_, "pkt")
            est.pky_ = name_array(c, est.pky_, "pky")
            # held-out sets of any size are accepted by transform / predict / score, and score == -(documented losses)
            try:
                Tv = est.transform(Xv)
                Yp = est.predict(Xv)
                sv = est.score(Xv, Yv)
            except ValueError as e:
                P.require(False, "held-out-set-of-any-size-accepted", {"rows": hv, "error": repr(e)[:160]})
                return {"k": k, "raises": True}
            KNN, KVN, KVV = K_of(X, X), K_of(Xv, X), K_of(Xv, Xv)
            P.require_all(sc.arr_eq(Tv, KVN @ est.pkt_) + sc.arr_eq(Yp, KVN @ est.pky_), "transform/predict==kernel-block-times-projector")
            if hv == 1:
                # a single held-out row: acceptance and the transform/predict plumbing are decided; the score identity itself is
                # not (the obligation does not normalise to zero and its solver translation blows up) - stated as outside the claim
                return {"k": k}
            TN = KNN @ est.pkt_
            G = linalg.pinv(TN.T @ TN)
            # documented loss: Tr[K_VV - 2 K_VN T_N G T_V^T + T_V G T_N^T K_NN T_N G T_V^T] / Tr K_VV
            num = arrays.trace(KVV - 2 * (KVN @ TN @ G @ Tv.T) + Tv @ G @ TN.T @ KNN @ TN @ G @ Tv.T)
            lk = num / arrays.trace(KVV)
            lr = fro2(Yv - Yp) / fro2(Yv)
            P.require(core.cross_eq(sv, -(lk + lr)), "score==-(documented kernel loss + relative regression loss)", {"rows": hv})
            return {"k": k}
        if mode == "pcovr-equiv":
            from skmatter.decomposition import PCovR

            for i in range(k):
                pass
            rcfg = {"reg": "ridge"}
            pr = PCovR(mixing=a, n_components=k, space="sample", svd_solver="full", regressor=pc.regressor_for(rcfg, True, alpha), tol=1e-12).fit(X, Y)
            full = PCovR(mixing=a, n_components=min(n, m), space="sample", svd_solver="full", regressor=pc.regressor_for(rcfg, True, alpha), tol=1e-12).fit(X, Y)
            ev = full.explained_variance_
            for i in range(len(ev) - 1):
                c.assume(ev[i] > ev[i + 1])
            for i in range(k):
                c.assume(pr.explained_variance_[i] * (n - 1) > tolq)
            P.require_all(cols_equal_up_to_sign(est.transform(X), pr.transform(X)) + cols_equal_up_to_sign(est.transform(Xv), pr.transform(Xv)), "linear-kernel:projections==sample-space-PCovR")
            P.require_all(sc.arr_eq(est.predict(X), pr.predict(X)) + sc.arr_eq(est.predict(Xv), pr.predict(Xv)), "linear-kernel:predictions==sample-space-PCovR")
            return {"k": k}
        if mode == "precomputed-equiv":
            KNN, KVN = K_of(X, X), K_of(Xv, X)
            ep = self._kp(cfg, a, alpha, kernel="precomputed", regressor=KRRStub(alpha=alpha, kernel="precomputed"))
            # a regressor must carry the same kernel parameters as the estimator
            ep.gamma, ep.degree, ep.coef0 = None, 3, 1
            ep.regressor.gamma, ep.regressor.degree, ep.regressor.coef0 = None, 3, 1
            K0 = np.array(KNN, dtype=object).copy()
            ep.fit(KNN, Yfit)
            P.require_all(sc.arr_eq(KNN, K0), "caller-supplied-kernel-unchanged-by-fit")
            P.require_all(cols_equal_up_to_sign(est.transform(Xv), ep.transform(KVN)) + sc.arr_eq(est.predict(Xv), ep.predict(KVN)), "named-kernel==same-kernel-precomputed")
            P.require(core.cross_eq(est.score(X, Yfit), ep.score(KNN, Yfit)), "named-kernel==same-kernel-precomputed:score(train)")
            return {"k": k}
        if mode == "center-equiv":
            from skmatter.preprocessing import KernelNormalizer

            KNN, KVN = K_of(X, X), K_of(Xv, X)
            kn = KernelNormalizer().fit(KNN.copy())
            Kc, Kvc = kn.transform(KNN.copy()), kn.transform(KVN.copy())
            ep = self._kp(cfg, a, alpha, kernel="precomputed", center=False, regressor=KRRStub(alpha=alpha, kernel="precomputed"))
            ep.gamma, ep.degree, ep.coef0 = None, 3, 1
            ep.regressor.gamma, ep.regressor.degree, ep.regressor.coef0 = None, 3, 1
            ep.fit(Kc, Yfit)
            P.require_all(cols_equal_up_to_sign(est.transform(Xv), ep.transform(Kvc)) + sc.arr_eq(est.predict(Xv), ep.predict(Kvc)), "center=True==explicit-KernelNormalizer")
            return {"k": k}
        if mode == "refit-center":
            est.set_params(center=False)
            est.fit(X, Yfit)
            fresh = self._kp(cfg, a, alpha, center=False)
            fresh.fit(X, Yfit)
            P.require_all(cols_equal_up_to_sign(est.transform(Xv), fresh.transform(Xv)) + sc.arr_eq(est.predict(Xv), fresh.predict(Xv)),
                          "refit-after-center-switched-off==fresh-estimator")
            return {"k": k}
        if mode == "regressors":
            # None / unfitted / fitted kernel ridge give the documented Yhat and W; precomputed uses Y as Yhat
            KNN = K_of(X, X)
            Wd = linalg.pinv(KNN + alpha * arrays.eye(n)) @ Y
            fitted = KRRStub(alpha=alpha, kernel="precomputed").fit(KNN, Y)
            fitted.kernel = cfg["kernel"]
            e2 = self._kp(cfg, a, alpha, regressor=fitted)
            e2.fit(X, Y)
            P.require_all(cols_equal_up_to_sign(est.transform(Xv), e2.transform(Xv)) + sc.arr_eq(est.predict(Xv), e2.predict(Xv)), "fitted-regressor==unfitted-regressor")
            P.require_all(sc.arr_eq(np.asarray(est.regressor_.dual_coef_, dtype=object).reshape(n, -1), Wd), "regressor-dual-coefficients==(K+alpha I)^-1 Y")
            return {"k": k}
        return {"k": k}

    # ------------------------------------------------------------------ float replay
    def concrete(self, cfg, values):
        import warnings
        from skmatter.decomposition import PCovR
        from sklearn.linear_model import Ridge
        from sklearn.metrics.pairwise import pairwise_kernels

        X, Y, Yin = pc.float_family(cfg, values)
        n, m, k, p, hv = cfg["n"], cfg["m"], cfg["k"], cfg["p"], cfg["hv"]
        a = float(values.get("mix", 0.5))
        alpha = float(values.get("alpha", 0.5)) or 0.5
        rng = np.random.RandomState(11)
        Xv = np.array([[float(values.get(f"v_{i}_{j}", rng.randn())) for j in range(m)] for i in range(hv)])
        Yv = np.array([[float(values.get(f"w_{i}_{j}", rng.randn())) for j in range(p)] for i in range(hv)])
        viol = []
        Yfit = Yin if cfg["reg"] == "precomputed" else Y
        kp = dict(gamma=1 if cfg["kernel"] == "poly" else None, degree=2 if cfg["kernel"] == "poly" else 3, coef0=cfg.get("coef0", 1))

        def K_of(A, B=None):
            return pairwise_kernels(A, B, metric=cfg["kernel"], filter_params=True, **kp)

        def close(A, B, tol=1e-6):
            A, B = np.asarray(A, dtype=float), np.asarray(B, dtype=float)
            return A.shape == B.shape and np.allclose(A, B, atol=tol * max(1.0, np.abs(B).max() if B.size else 1.0))

        def sclose(A, B):
            return A.shape == B.shape and all(close(A[:, j], B[:, j]) or close(A[:, j], -B[:, j]) for j in range(A.shape[1]))

        with warnings.catch_warnings():
            warnings.simplefilter("ignore")
            mode = cfg["mode"]
            if mode == "caller-kernel":
                KNN = X @ X.T + abs(float(values.get("koff", 1.5)))
                K0 = KNN.copy()
                self._kp(cfg, a, alpha, sym=False).fit(KNN, Yfit)
                if not np.array_equal(KNN, K0):
                    viol.append(("caller-supplied-kernel-unchanged-by-fit", float(np.abs(KNN - K0).max())))
                return {"k": k}, viol
            est = self._kp(cfg, a, alpha, sym=False)
            est.fit(X, Yfit)
            if mode == "score":
                try:
                    Tv, Yp, sv = est.transform(Xv), est.predict(Xv), est.score(Xv, Yv)
                except ValueError as e:
                    return {"k": k, "raises": True}, [("held-out-set-of-any-size-accepted", {"rows": hv, "error": repr(e)[:160]})]
                KNN, KVN, KVV = K_of(X, X), K_of(Xv, X), K_of(Xv, Xv)
                TN = KNN @ est.pkt_
                G = np.linalg.pinv(TN.T @ TN)
                lk = np.trace(KVV - 2 * KVN @ TN @ G @ Tv.T + Tv @ G @ TN.T @ KNN @ TN @ G @ Tv.T) / np.trace(KVV)
                lr = np.linalg.norm(Yv - Yp) ** 2 / np.linalg.norm(Yv) ** 2
                if abs(sv + lk + lr) > 1e-6 * max(1.0, abs(lk + lr)):
                    viol.append(("score==-(documented kernel loss + relative regression loss)", {"score": float(sv), "documented": float(-(lk + lr))}))
            elif mode == "precomputed-equiv":
                from sklearn.kernel_ridge import KernelRidge

                KNN, KVN = K_of(X, X), K_of(Xv, X)
                K0 = KNN.copy()
                ep = self._kp(cfg, a, alpha, kernel="precomputed", regressor=KernelRidge(alpha=alpha, kernel="precomputed"), sym=False)
                ep.gamma, ep.degree, ep.coef0 = None, 3, 1
                ep.fit(KNN, Yfit)
                if not np.array_equal(KNN, K0):
                    viol.append(("caller-supplied-kernel-unchanged-by-fit", float(np.abs(KNN - K0).max())))
                if not sclose(est.transform(Xv), ep.transform(KVN)) or not close(est.predict(Xv), ep.predict(KVN)):
                    viol.append(("named-kernel==same-kernel-precomputed", None))
            elif mode == "refit-center":
                est.set_params(center=False)
                est.fit(X, Yfit)
                fresh = self._kp(cfg, a, alpha, center=False, sym=False)
                fresh.fit(X, Yfit)
                if not sclose(est.transform(Xv), fresh.transform(Xv)) or not close(est.predict(Xv), fresh.predict(Xv)):
                    viol.append(("refit-after-center-switched-off==fresh-estimator", float(np.abs(est.predict(Xv) - fresh.predict(Xv)).max())))
            elif mode == "pcovr-equiv":
                pr = PCovR(mixing=a, n_components=k, space="sample", svd_solver="full", regressor=Ridge(alpha=alpha, fit_intercept=False, tol=1e-12), tol=1e-12).fit(X, Y)
                full = PCovR(mixing=a, n_components=min(n, m), space="sample", svd_solver="full", regressor=Ridge(alpha=alpha, fit_intercept=False, tol=1e-12), tol=1e-12).fit(X, Y)
                if np.any(np.abs(np.diff(full.explained_variance_)) < 1e-7) or np.any(pr.explained_variance_ * (n - 1) < 1e-9):
                    return {"k": k}, []
                if not sclose(est.transform(Xv), pr.transform(Xv)):
                    viol.append(("linear-kernel:projections==sample-space-PCovR", None))
                if not close(est.predict(Xv), pr.predict(Xv)):
                    viol.append(("linear-kernel:predictions==sample-space-PCovR", float(np.abs(est.predict(Xv) - pr.predict(Xv)).max())))
        return {"k": k}, viol

    def fix_values(self, cfg, new, model):
        for i, k_ in enumerate(sorted(x for x in new if x.startswith("s_"))):
            new[k_] = abs(new[k_]) + 1 + i
        new["mix"] = model.get("mix") if model.get("mix") is not None else core.Fraction(1, 2)
        new["alpha"] = model.get("alpha") if model.get("alpha") else core.Fraction(1, 2)
        return new

    def same_outcome(self, cfg, sym_out, real_out):
        return sym_out.get("k") == real_out.get("k")

    def signature(self, cfg, clause, values, viol):
        names = sorted(set(v[0] for v in viol))
        extra = f"/rows={cfg['hv']}" if cfg["mode"] == "score" else ""
        return f"C05/{cfg['mode']}/center={cfg['center']}{extra}/{'+'.join(names)[:200]}"


if __name__ == "__main__":
    sys.exit(runner.main(C05()))
