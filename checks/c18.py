"""C18 - OrthogonalRegression yields an orthogonal map that is Procrustes-optimal."""
from __future__ import annotations

import os
import sys
from fractions import Fraction as Fr

sys.path.insert(0, os.path.dirname(os.path.dirname(os.path.abspath(__file__))))

import numpy as np

from symx import arrays, core, runner, linalg
from symx.arrays import is_sym, SymArray
from symx.core import Formula, f_and, f_or, TRUE, FALSE
from checks import sel_common as sc
from checks import frames
from checks.c14 import fro2

F_ = sc._F


def stub_procrustes(A, B, check_finite=True):
    """scipy.linalg.orthogonal_procrustes by its definition: R = U Vt with U S Vt = svd(A^T B), scale = sum(S)"""
    if not is_sym(A) and not is_sym(B):
        from scipy.linalg import orthogonal_procrustes as real

        return real(A, B, check_finite=check_finite)
    M = (B.T @ A).T
    try:
        U, S, Vt = linalg.svd(M, full_matrices=True)
        return U @ Vt, S.sum()
    except core.Unsupported:
        if M.shape != (2, 2):
            raise
    # closed form for 2 x 2: maximise tr(R^T M) over O(2).  Rotations reach sqrt((a+d)^2 + (c-b)^2), reflections sqrt((a-d)^2 + (b+c)^2);
    # the rotation is at least as good iff det M >= 0
    a, b, c_, d = M[0, 0], M[0, 1], M[1, 0], M[1, 1]
    rot = F_(a * d - b * c_ >= 0)
    R = arrays.zeros((2, 2))
    if bool(rot) if isinstance(rot, Formula) else rot:
        rho = core.ssqrt((a + d) * (a + d) + (c_ - b) * (c_ - b))
        cs, sn = (a + d) / rho, (c_ - b) / rho
        R[0, 0], R[0, 1], R[1, 0], R[1, 1] = cs, -sn, sn, cs
    else:
        rho = core.ssqrt((a - d) * (a - d) + (b + c_) * (b + c_))
        cs, sn = (a - d) / rho, (b + c_) / rho
        R[0, 0], R[0, 1], R[1, 0], R[1, 1] = cs, sn, sn, -cs
    return R, rho


class LinRegStub:
    """sklearn LinearRegression by the normal equations (with intercept: centre first)"""

    def __init__(self, fit_intercept=True, **kw):
        self.fit_intercept = fit_intercept

    def fit(self, X, y):
        if not is_sym(X) and not is_sym(y):
            from sklearn.linear_model import LinearRegression

            r = LinearRegression(fit_intercept=self.fit_intercept).fit(X, y)
            self.coef_, self.intercept_ = r.coef_, r.intercept_
            return self
        Y = y.reshape(X.shape[0], -1)
        if self.fit_intercept:
            Xc = X - X.sum(axis=0) / X.shape[0]
            Yc = Y - Y.sum(axis=0) / Y.shape[0]
        else:
            Xc, Yc = X, Y
        W = linalg.pinv(Xc) @ Yc
        self.coef_ = W.T if y.ndim == 2 else W.reshape(-1)
        self._W, self._shift = W, ((X.sum(axis=0) / X.shape[0], Y.sum(axis=0) / Y.shape[0]) if self.fit_intercept else None)
        return self

    def predict(self, X):
        if not hasattr(self, "_W"):
            return X @ np.asarray(self.coef_).T + self.intercept_
        if self._shift is None:
            return X @ self._W
        return (X - self._shift[0]) @ self._W + self._shift[1]


class RidgeStub:
    """user-supplied regularised linear estimator without intercept: W = (X^T X + alpha I)^-1 X^T Y (sklearn Ridge on floats)"""

    def __init__(self, alpha=1):
        self.alpha = alpha

    def fit(self, X, y):
        Y = y.reshape(X.shape[0], -1)
        if not is_sym(X) and not is_sym(y):
            from sklearn.linear_model import Ridge

            r = Ridge(alpha=float(self.alpha), fit_intercept=False).fit(X, Y)
            self._W = r.coef_.T
        else:
            self._W = linalg.inv(X.T @ X + arrays.eye(X.shape[1]) * self.alpha) @ X.T @ Y
        self.coef_ = self._W.T
        return self

    def predict(self, X):
        return X @ self._W


class C18(runner.Check):
    pid = "C18"
    modules = ["skmatter.linear_model._base"]
    linalg_stubs = linalg.LINALG_STUBS
    engine_opts = dict(pool=48, max_paths=3000, feas_ms=1500, t3_ms=12000, t2_ms=12000, wall_s=1500)
    expected_events = ("singular", "sqrt-neg", "div0")
    bounds_text = ("factor family X = U diag(s) Vx^T, y = U diag(t) Vy^T (+ remainder orthogonal to U), frames from the rational library, spectra symbolic (s > 0, t free); "
                   "(features, targets) in {(2,2), (2,1), (1,2)} quick and (3,2), (2,3) thorough; both modes; competitors: every library frame of the padded size and a rotation "
                   "of the fitted map by a symbolic angle in each coordinate plane; new inputs symbolic.")
    stubs = ["np.linalg.svd -> verified-frame SVD with Gram-Schmidt completion of null vectors", "scipy orthogonal_procrustes -> U Vt of svd(A^T B) (its definition)",
             "sklearn LinearRegression -> normal equations"]
    assumptions = ["exact real arithmetic", "frames inside the library", "X of full column rank (s > 0)"]
    outside = ["arbitrary competitors in O(n) (only the stated competitor families)", "frames outside the library",
               "recovery of y = XQ for unequal numbers of features and targets in padded mode"]

    def configs(self, tier):
        cf = []

        def add(mode, m, p, Vx, Vy, proj, cost=3, **kw):
            c = {"mode": mode, "n": 4, "m": m, "p": p, "Vx": Vx, "Vy": Vy, "proj": proj, "_cost": cost}
            c.update(kw)
            cf.append(c)

        for proj in (False, True):
            add("structure", 2, 2, "R35", "R513", proj)
            add("recover", 2, 2, "R35", "I", proj, Q="R513")
            add("optimal", 2, 2, "I", "R35", proj, cost=6)
        add("structure", 2, 1, "R35", "I", False, cost=4)
        add("structure", 1, 2, "I", "R35", False, cost=4)
        add("structure", 2, 1, "R35", "I", True, cost=4)
        # history: a user-supplied linear estimator reused across two fits must be refitted on the new data
        add("refit-user-estimator", 2, 1, "R35", "I", True, cost=4)
        add("refit-user-estimator", 1, 2, "I", "R35", True, cost=4)
        # a user-supplied regularised estimator only fixes the subspaces: the map must still be optimal for the training targets themselves
        add("optimal", 2, 2, "I", "R35", True, cost=8, user="ridge")
        add("optimal", 2, 2, "I", "I", True, cost=10, user="ridge", coupled="R35")  # targets coupled to X through a rotation that is not a singular frame of X
        if tier == "thorough":
            for proj in (False, True):
                add("structure", 3, 2, "H122", "R35", proj, cost=20)
                add("structure", 2, 3, "R513", "R35_01", proj, cost=20)
                add("optimal", 2, 2, "R35R513", "F35", proj, cost=8, remainder=True)
                add("recover", 2, 2, "F35", "I", proj, Q="R35R513")
        return cf

    def patches(self, cfg):
        return {"skmatter.linear_model._base": {"orthogonal_procrustes": stub_procrustes, "LinearRegression": LinRegStub}}

    # ------------------------------------------------------------------
    def _family(self, c, cfg, sym=True, values=None):
        n, m, p = cfg["n"], cfg["m"], cfg["p"]
        r = min(m, p) if cfg["mode"] != "recover" else m
        QL, cols = frames.left_frame_cols(n, max(m, p))
        Vx, Vy = linalg.frame(m, cfg["Vx"]), linalg.frame(p, cfg["Vy"])
        if sym:
            linalg.HINTS[:] = [Vx, Vy]
            for k_ in (2, 3):
                if max(m, p) == k_ and min(m, p) < k_:
                    pass
            U = arrays.exact(frames._cols(QL, cols))
            s = [c.sym(f"s_{i}", positive=True) for i in range(m)]
            t = [c.sym(f"t_{i}") for i in range(min(m, p))]
            S = arrays.zeros((max(m, p), m))
            for i in range(m):
                S[i, i] = s[i]
            X = U @ S @ arrays.exact(Vx).T
            T = arrays.zeros((max(m, p), p))
            for i in range(min(m, p)):
                T[i, i] = t[i]
            Y = U @ T @ arrays.exact(Vy).T
            if cfg.get("coupled"):
                # X = U diag(1, 2); Y = U diag((s^2 + 1) / s) Qa diag(t): the ridge(alpha=1) coefficients are Qa diag(t) (library frames),
                # while X^T Y = diag(s^2 + 1) Qa diag(t) is a general 2 x 2 matrix (closed-form 2 x 2 Procrustes)
                Qa = linalg.frame(2, cfg["coupled"])
                linalg.HINTS[:] = [Qa, linalg.frame(2, "I")]
                X = U @ arrays.exact([[1, 0], [0, 2]])
                Y = U @ arrays.exact([[2, 0], [0, Fr(5, 2)]]) @ arrays.exact(Qa) @ arrays.array([[t[0], 0], [0, t[1]]], dtype=object)
                c.assume(t[0] != 0)
                c.assume(t[1] != 0)
            if cfg.get("remainder"):
                free = [j for j in range(n) if j not in cols and j != 0]
                if free:
                    h = arrays.exact([[QL[i][free[0]]] for i in range(n)])
                    Y = Y + h @ arrays.array([[c.sym(f"q_{j}") for j in range(p)]], dtype=object)
            return X, Y, s, t
        U = np.array(frames._cols(QL, cols), dtype=float)
        S = np.zeros((max(m, p), m))
        for i in range(m):
            S[i, i] = float(values.get(f"s_{i}", 1.5 + i))
        X = U @ S @ np.array(Vx, dtype=float).T
        T = np.zeros((max(m, p), p))
        for i in range(min(m, p)):
            T[i, i] = float(values.get(f"t_{i}", 0.8 - 1.7 * i))
        Y = U @ T @ np.array(Vy, dtype=float).T
        if cfg.get("coupled"):
            Qa = np.array(linalg.frame(2, cfg["coupled"]), dtype=float)
            X = U @ np.diag([1.0, 2.0])
            Y = U @ np.diag([2.0, 2.5]) @ Qa @ np.diag([T[0, 0], T[1, 1]])
        if cfg.get("remainder"):
            free = [j for j in range(n) if j not in cols and j != 0]
            if free:
                h = np.array([[float(QL[i][free[0]])] for i in range(n)])
                Y = Y + h @ np.array([[float(values.get(f"q_{j}", 0.4 + j)) for j in range(p)]])
        return X, Y, None, None

    def harness(self, c, cfg, P):
        from skmatter.linear_model import OrthogonalRegression

        n, m, p = cfg["n"], cfg["m"], cfg["p"]
        X, Y, s, t = self._family(c, cfg)
        proj = cfg["proj"]
        mode = cfg["mode"]
        if mode == "recover":
            Qf = linalg.frame(m, cfg["Q"])
            Q = arrays.exact(Qf)
            Y = X @ Q
            # y = XQ: the matrices decomposed on the way are diagonalised by products of the frames involved (still concrete rational)
            Vxf = linalg.frame(m, cfg["Vx"])
            mm, tt = linalg._matmul, linalg._T
            linalg.HINTS[:] = [Vxf, Qf, mm(tt(Qf), Vxf), mm(tt(Vxf), Qf), mm(Qf, Vxf), tt(Qf)]
        if mode == "refit-user-estimator":
            le = LinRegStub()
            est = OrthogonalRegression(use_orthogonal_projector=True, linear_estimator=le)
            Xa = arrays.exact([[(2 * i + j) % 3 - 1 for j in range(m)] for i in range(n)])
            Ya = arrays.exact([[(i * (j + 2)) % 4 - 1 for j in range(p)] for i in range(n)])
            linalg.HINTS[:] = list(linalg.HINTS) + [fr for nm, fr in linalg.library(max(m, p))]
            try:
                est.fit(Xa, Ya)
            except core.Unsupported:
                pass  # the first fit is only there to leave state behind
            linalg.HINTS[:] = [linalg.frame(m, cfg["Vx"]), linalg.frame(p, cfg["Vy"])]
            est.fit(X, Y)
            fresh = OrthogonalRegression(use_orthogonal_projector=True, linear_estimator=LinRegStub()).fit(X, Y)
            P.require_all(sc.arr_eq(est.coef_, fresh.coef_), "refit-with-user-estimator==fresh-fit")
            return {"ok": True}
        est = OrthogonalRegression(use_orthogonal_projector=proj, linear_estimator=RidgeStub(1) if cfg.get("user") == "ridge" else None).fit(X, Y)
        A = np.asarray(est.coef_, dtype=object).T.view(SymArray)  # maps (padded) inputs to (padded) outputs: prediction = x @ A
        d = A.shape[0]
        if mode == "structure":
            if not proj:
                P.require(Formula.const(A.shape == (max(m, p), max(m, p))), "padded-square-shape")
                P.require_all(sc.arr_eq(A @ A.T, arrays.eye(d)), "coef_-orthogonal(padded mode)")
            else:
                AtA = A.T @ A
                P.require_all(sc.arr_eq(A @ AtA, A), "coef_-partial-isometry(projector mode)")
            xn = arrays.symbols("z", (2, m))
            pred = est.predict(xn)
            xin = xn if proj or m == d else arrays._rewrap(np.pad)(xn, [(0, 0), (0, d - m)])
            P.require_all(sc.arr_eq(pred, xin @ A), "predict-pads-consistently")
            for i in range(2):
                # certificate: |x|^2 - |xA|^2 == |x (I - A A^T)|^2 >= 0
                res = xin[i].reshape(1, -1) @ (arrays.eye(xin.shape[1]) - A @ A.T)
                P.require(core.cross_eq(fro2(xin[i]) - fro2(pred[i]), fro2(res)), "prediction-norm<=input-norm(certificate identity)")
        elif mode == "recover":
            Qp = Q
            P.require_all(sc.arr_eq(A[:m, :p] if not proj else A, Qp), "y=XQ:map-recovered")
            P.require_all(sc.arr_eq(est.predict(X)[:, :p], Y), "y=XQ:training-residual-vanishes")
        else:  # optimal
            Xp = X if proj or m == d else arrays._rewrap(np.pad)(X, [(0, 0), (0, d - m)])
            Yp = Y if proj or p == A.shape[1] else arrays._rewrap(np.pad)(Y, [(0, 0), (0, A.shape[1] - p)])
            mine = fro2(Yp - Xp @ A)
            for nm, Qc in linalg.library(d):
                P.require(F_(mine <= fro2(Yp - Xp @ arrays.exact(Qc))), "residual<=every-library-competitor", {"competitor": nm})
            tp = c.sym("tpar")
            cs, sn = (1 - tp * tp) / (1 + tp * tp), (2 * tp) / (1 + tp * tp)
            for (i, j) in [(0, 1)] if d == 2 else [(0, 1), (0, 2), (1, 2)]:
                G = arrays.eye(d)
                G[i, i], G[i, j], G[j, i], G[j, j] = cs, -sn, sn, cs
                P.require(F_(mine <= fro2(Yp - Xp @ (A @ G))), "residual<=rotated-own-solution", {"plane": [i, j]})
        return {"ok": True}

    # ------------------------------------------------------------------ float replay
    def concrete(self, cfg, values):
        from skmatter.linear_model import OrthogonalRegression

        n, m, p = cfg["n"], cfg["m"], cfg["p"]
        X, Y, _, _ = self._family(None, cfg, sym=False, values=values)
        proj = cfg["proj"]
        mode = cfg["mode"]
        viol = []
        if mode == "recover":
            Q = np.array(linalg.frame(m, cfg["Q"]), dtype=float)
            Y = X @ Q
        if mode == "refit-user-estimator":
            from sklearn.linear_model import LinearRegression

            Xa = np.array([[(2 * i + j) % 3 - 1 for j in range(m)] for i in range(n)], dtype=float)
            Ya = np.array([[(i * (j + 2)) % 4 - 1 for j in range(p)] for i in range(n)], dtype=float)
            est = OrthogonalRegression(use_orthogonal_projector=True, linear_estimator=LinearRegression())
            est.fit(Xa, Ya)
            est.fit(X, Y)
            fresh = OrthogonalRegression(use_orthogonal_projector=True, linear_estimator=LinearRegression()).fit(X, Y)
            if not np.allclose(est.coef_, fresh.coef_, atol=1e-7):
                viol.append(("refit-with-user-estimator==fresh-fit", {"refit": np.asarray(est.coef_).tolist(), "fresh": np.asarray(fresh.coef_).tolist()}))
            return {"ok": True}, viol
        est = OrthogonalRegression(use_orthogonal_projector=proj, linear_estimator=RidgeStub(1) if cfg.get("user") == "ridge" else None).fit(X, Y)
        A = np.asarray(est.coef_).T
        d = A.shape[0]
        tol = 1e-7
        if mode == "structure":
            if not proj and (A.shape != (max(m, p),) * 2 or not np.allclose(A @ A.T, np.eye(d), atol=tol)):
                viol.append(("coef_-orthogonal(padded mode)", (A @ A.T).tolist()))
            if proj and not np.allclose(A @ A.T @ A, A, atol=tol):
                viol.append(("coef_-partial-isometry(projector mode)", None))
            rng = np.random.RandomState(4)
            xn = np.array([[float(values.get(f"z_{i}_{j}", rng.randn())) for j in range(m)] for i in range(2)])
            pred = est.predict(xn)
            if np.any(np.linalg.norm(pred, axis=1) > np.linalg.norm(xn, axis=1) * (1 + 1e-9) + 1e-12):
                viol.append(("prediction-norm<=input-norm(certificate identity)", [np.linalg.norm(pred, axis=1).tolist(), np.linalg.norm(xn, axis=1).tolist()]))
        elif mode == "recover":
            if np.linalg.norm(est.predict(X)[:, :p] - Y) > 1e-7 * max(1.0, np.linalg.norm(Y)):
                viol.append(("y=XQ:training-residual-vanishes", float(np.linalg.norm(est.predict(X)[:, :p] - Y))))
        else:
            Xp = X if proj or m == d else np.pad(X, [(0, 0), (0, d - m)])
            Yp = Y if proj or p == A.shape[1] else np.pad(Y, [(0, 0), (0, A.shape[1] - p)])
            mine = np.linalg.norm(Yp - Xp @ A)
            from scipy.linalg import orthogonal_procrustes

            full = proj and m == p and np.linalg.matrix_rank(A) == m  # projector mode with full-rank square coefficients: every orthogonal map is admissible
            best = np.linalg.norm(Yp - Xp @ orthogonal_procrustes(Xp, Yp)[0]) if (not proj or full) else None
            rng = np.random.RandomState(0)
            for _ in range(30):
                Qr, _ = np.linalg.qr(rng.randn(d, d))
                if not proj and np.linalg.norm(Yp - Xp @ Qr) < mine - 1e-7 * max(1.0, mine):
                    viol.append(("residual<=every-library-competitor", None))
                    break
            if best is not None and mine > best + 1e-7 * max(1.0, best):
                viol.append(("residual<=every-library-competitor", {"mine": float(mine), "optimum": float(best)}))
        return {"ok": True}, viol

    def fix_values(self, cfg, new, model):
        for k_ in list(new):
            if k_.startswith("s_"):
                new[k_] = abs(new[k_]) + 1
        return new

    def same_outcome(self, cfg, sym_out, real_out):
        return True

    def signature(self, cfg, clause, values, viol):
        names = sorted(set(v[0] for v in viol))
        return f"C18/{cfg['mode']}/proj={cfg['proj']}/m={cfg['m']}/p={cfg['p']}/{'+'.join(names)[:200]}"


if __name__ == "__main__":
    sys.exit(runner.main(C18()))
