"""Shared pieces of the selector checks (C01, C02, C06, C08): building selectors from a
JSON config, symbolic inputs, independent distance oracles (symbolic and float)."""
from __future__ import annotations

import warnings
from fractions import Fraction

import numpy as np

from symx import arrays, core
from symx.core import Formula, f_and, f_or, TRUE, FALSE

SEL_MODULES = ["skmatter._selection", "skmatter.sample_selection._voronoi_fps", "skmatter.utils._pcovr_utils",
               "skmatter.utils._orthogonalizers", "skmatter.sample_selection._base", "skmatter.feature_selection._base"]


def make_selector(cfg, **over):
    import skmatter.feature_selection as fs
    import skmatter.sample_selection as ss

    mod = ss if cfg["dir"] == "sample" else fs
    cls = getattr(mod, cfg["cls"])
    kw = dict(cfg.get("params", {}))
    kw.update(over)
    return cls(**kw)


def sym_inputs(cfg):
    n, m = cfg["n"], cfg["m"]
    X = arrays.symbols("x", (n, m))
    y = None
    if cfg.get("p"):
        y = arrays.symbols("y", (n, cfg["p"]))
    return X, y


def float_inputs(cfg, values):
    n, m = cfg["n"], cfg["m"]
    X = np.array([[float(values.get(f"x_{i}_{j}", 0)) for j in range(m)] for i in range(n)], dtype=float)
    y = None
    if cfg.get("p"):
        y = np.array([[float(values.get(f"y_{i}_{j}", 0)) for j in range(cfg["p"])] for i in range(n)], dtype=float)
    return X, y


def items(X, direction):
    """the list of candidate vectors (rows for sample, columns for feature selection)"""
    return [X[i] for i in range(X.shape[0])] if direction == "sample" else [X[:, j] for j in range(X.shape[1])]


def sqdist(a, b):
    d = a - b
    s = None
    for k in range(d.shape[0]):
        t = d[k] * d[k]
        s = t if s is None else s + t
    return s


def _F(b):
    if isinstance(b, Formula):
        return b
    if b is NotImplemented:
        raise core.Unsupported("comparison not implemented")
    return TRUE if b else FALSE


def ge(a, b):
    return _F(a >= b)


def le(a, b):
    return _F(a <= b)


def eq(a, b):
    if isinstance(a, float) and isinstance(b, float):
        return _F(a == b)
    return _F(a == b)


def min_ge_min(As, Bs):
    """formula for min(As) >= min(Bs) without atoms: forall a exists b: a >= b"""
    return f_and(*[f_or(*[ge(a, b) for b in Bs]) for a in As])


def is_min_of(v, Bs):
    """formula for v == min(Bs)"""
    return f_and(f_and(*[le(v, b) for b in Bs]), f_or(*[eq(v, b) for b in Bs]))


def arr_eq(A, B):
    """list of elementwise equality formulas between equally-shaped arrays"""
    A = np.asarray(A, dtype=object)
    B = np.asarray(B, dtype=object)
    if A.shape != B.shape:
        return [FALSE]
    out = []
    for idx in np.ndindex(*A.shape):
        a, b = A[idx], B[idx]
        if isinstance(a, float) and isinstance(b, float):
            out.append(_F(a == b))
        else:
            out.append(_F(a == b))
    return out


class quiet:
    def __enter__(self):
        self.cm = warnings.catch_warnings(record=True)
        self.w = self.cm.__enter__()
        warnings.simplefilter("always")
        return self.w

    def __exit__(self, *a):
        return self.cm.__exit__(*a)


# ------------------------------------------------------------------ float oracles


def true_dist_matrix(cfg, X, y, mixing=None):
    """independent float oracle of the squared-distance matrix between candidates"""
    direction = cfg["dir"]
    if cfg["cls"] in ("FPS", "VoronoiFPS"):
        V = X if direction == "sample" else X.T
        return ((V[:, None, :] - V[None, :, :]) ** 2).sum(-1)
    # PCov-FPS
    a = float(mixing)
    if direction == "sample":
        K = a * X @ X.T + (1 - a) * y @ y.T
    else:
        C = X.T @ X
        w, U = np.linalg.eigh(C)
        keep = w > 1e-12
        Ci = (U[:, keep] / np.sqrt(w[keep])) @ U[:, keep].T
        CY = Ci @ (X.T @ y)
        K = a * C + (1 - a) * CY @ CY.T
    d = np.diag(K)
    return d[:, None] + d[None, :] - 2 * K


def tol_of(D):
    return 1e-8 * max(1.0, float(np.max(np.abs(D)))) if D.size else 1e-8


def record_scores(sel):
    """harness-side instrumentation (instance attribute, no source change): remember the score of
    every greedy pick together with the reference first score"""
    sel._symx_pick_scores = []
    orig = sel._get_best_new_selection

    def rec(scorer, X, y):
        r = orig(scorer, X, y)
        if r is not None:
            sel._symx_pick_scores.append((int(sel.n_selected_), scorer(X, y)[r], sel.first_score_))
        return r

    sel._get_best_new_selection = rec
    return sel


# ------------------------------------------------------------------ geometric lemma (proved once by the solver, then instantiated)
_LEMMA_OK = {}


def prove_pruning_lemma(m):
    """for all x, s, l in R^m:  |s-l|^2 >= 4 |x-s|^2  ==>  |x-l|^2 >= |x-s|^2   (the triangle-inequality fact behind the
    Voronoi pruning rule).  Proved by z3 (QF_NRA, s = 0 w.l.o.g. by translation invariance) once per dimension."""
    if m in _LEMMA_OK:
        return _LEMMA_OK[m]
    import z3

    x = [z3.Real(f"x{k}") for k in range(m)]
    l = [z3.Real(f"l{k}") for k in range(m)]
    nx = z3.Sum([v * v for v in x])
    nl = z3.Sum([v * v for v in l])
    dxl = z3.Sum([(x[k] - l[k]) * (x[k] - l[k]) for k in range(m)])
    ok = False
    for mk in (lambda: z3.SolverFor("QF_NRA"), lambda: z3.Solver()):
        S = mk()
        S.set("timeout", 60000)
        S.add(nl - 4 * nx >= 0, dxl - nx < 0)
        if S.check() == z3.unsat:
            ok = True
            break
    _LEMMA_OK[m] = ok
    return ok


def add_pruning_lemmas(c, D, n, m):
    """instances of the proved lemma over the independent distance terms D[i][j] for all distinct triples"""
    if not prove_pruning_lemma(m):
        return 0
    k = 0
    for i in range(n):
        for s_ in range(n):
            for l in range(n):
                if len({i, s_, l}) < 3:
                    continue
                f = f_or(~_F(D[s_][l] - D[i][s_] * 4 >= 0), _F(D[i][l] - D[i][s_] >= 0))
                c._add_pc(f)
                k += 1
    return k
