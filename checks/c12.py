"""C12 - kernel centring and normalisation equal centring and scaling in feature space."""
from __future__ import annotations

import os
import sys

sys.path.insert(0, os.path.dirname(os.path.dirname(os.path.abspath(__file__))))

import numpy as np

from symx import arrays, core, runner, linalg
from symx.core import Formula, f_and, f_or, TRUE, FALSE
from checks import sel_common as sc

F_ = sc._F


def sym_weights(c, cfg, n):
    wt = cfg["weights"]
    if wt == "none":
        return None, None
    if isinstance(wt, list):
        w = np.array(wt, dtype=float)
        return w, arrays.exact([core.to_fraction(x) / core.to_fraction(sum(wt)) for x in wt])
    tot = 1 if wt == "sym" else 3
    ws = [c.sym(f"w_{i}", nonneg=True) for i in range(n - 1)]
    last = c.assume_nonneg(tot - sum(ws[1:], ws[0]))
    w = arrays.array(ws + [last], dtype=object)
    return w, w / tot


def float_weights(cfg, values, n):
    wt = cfg["weights"]
    if wt == "none":
        return None, np.ones(n) / n
    if isinstance(wt, list):
        w = np.array(wt, dtype=float)
        return w, w / w.sum()
    tot = 1 if wt == "sym" else 3
    w = [float(values.get(f"w_{i}", 0)) for i in range(n - 1)]
    w = np.array(w + [tot - sum(w)])
    return w, w / w.sum()


class C12(runner.Check):
    pid = "C12"
    modules = ["skmatter.preprocessing._data"]
    linalg_stubs = linalg.LINALG_STUBS
    engine_opts = dict(pool=40, max_paths=3000, feas_ms=1500, t3_ms=10000, t2_ms=10000, wall_s=1200)
    expected_events = ("div0", "singular", "sqrt-neg")
    bounds_text = ("explicit symbolic feature matrices Phi_train (n<=4 x d<=2), Phi_test (1..2 rows), active set (1..2 rows); K = Phi Phi^T built in the "
                   "harness; all with_center/with_trace combinations; weights None / symbolic non-negative (fixed total) / integer multiplicities.")
    stubs = ["sklearn validators", "np.linalg.pinv -> closed form (adjugate) for invertible Kmm; singular Kmm ends the path",
             "sklearn KernelCenterer.fit runs unmodified on object arrays"]
    assumptions = ["exact real arithmetic", "K is the Gram matrix of explicit features", "Kmm invertible (active features of full row rank)",
                   "scale (trace) nonzero: a zero trace ends the path (division by zero event)"]
    outside = ["n > 4, d > 2", "kernels not given by explicit finite features"]

    def configs(self, tier):
        cf = []
        for kind in ("normalizer", "sparse"):
            for wc in (True, False):
                for wtr in (True, False):
                    for wt in ("none", "sym", [2, 1, 3]):
                        if kind == "sparse":
                            acts = [1, 2] if (wc and wtr) else [1]
                            for ma in acts:
                                cf.append({"kind": kind, "n": 3, "d": 2, "t": 1, "ma": ma, "with_center": wc, "with_trace": wtr, "weights": wt, "_cost": 4 * ma})
                        else:
                            cf.append({"kind": kind, "n": 3, "d": 2, "t": 2, "with_center": wc, "with_trace": wtr, "weights": wt, "_cost": 3})
        # two-step histories on one estimator object: a previous fit (other weights / other data) must not leak
        for wt, pre in (("none", [2, 1, 3]), ([2, 1, 3], "none"), ("sym", [1, 1, 4])):
            cf.append({"kind": "normalizer", "n": 3, "d": 2, "t": 1, "with_center": True, "with_trace": True, "weights": wt, "prefit": pre, "_cost": 3})
            cf.append({"kind": "sparse", "n": 3, "d": 2, "t": 1, "ma": 1, "with_center": True, "with_trace": True, "weights": wt, "prefit": pre, "_cost": 3})
        if tier == "thorough":
            cf.append({"kind": "normalizer", "n": 4, "d": 2, "t": 2, "with_center": True, "with_trace": True, "weights": "sym", "_cost": 20})
            cf.append({"kind": "normalizer", "n": 4, "d": 2, "t": 3, "with_center": True, "with_trace": True, "weights": "none", "_cost": 10})
            cf.append({"kind": "normalizer", "n": 3, "d": 2, "t": 1, "with_center": True, "with_trace": True, "weights": "sym3", "_cost": 5})
            cf.append({"kind": "sparse", "n": 4, "d": 2, "t": 2, "ma": 2, "with_center": True, "with_trace": True, "weights": "none", "_cost": 20})
            cf.append({"kind": "sparse", "n": 4, "d": 2, "t": 1, "ma": 1, "with_center": True, "with_trace": True, "weights": "sym", "_cost": 20})
            cf.append({"kind": "sparse", "n": 3, "d": 2, "t": 1, "ma": 2, "with_center": True, "with_trace": True, "weights": "sym3", "_cost": 20})
        return cf

    # ------------------------------------------------------------------
    def harness(self, c, cfg, P):
        n, d, t = cfg["n"], cfg["d"], cfg["t"]
        Phi = arrays.symbols("f", (n, d))
        Pt = arrays.symbols("g", (t, d))
        w_in, wn = sym_weights(c, cfg, n)
        if wn is None:
            wn = arrays.exact([core.to_fraction(1) / n] * n)
        mu = (wn.reshape(n, 1) * Phi).sum(axis=0)  # weighted training mean in feature space
        if cfg["kind"] == "normalizer":
            return self.h_normalizer(c, cfg, P, Phi, Pt, w_in, wn, mu)
        return self.h_sparse(c, cfg, P, Phi, Pt, w_in, wn, mu)

    def h_normalizer(self, c, cfg, P, Phi, Pt, w_in, wn, mu):
        from skmatter.preprocessing import KernelNormalizer

        n = cfg["n"]
        K = Phi @ Phi.T
        Kt = Pt @ Phi.T
        A = Phi - mu if cfg["with_center"] else Phi
        At = Pt - mu if cfg["with_center"] else Pt
        G = A @ A.T
        tr = arrays.trace(G)
        kn = KernelNormalizer(with_center=cfg["with_center"], with_trace=cfg["with_trace"])
        if cfg.get("prefit"):
            Kp = arrays.exact([[2, 1, 0], [1, 3, 1], [0, 1, 1]])
            pw = None if cfg["prefit"] == "none" else np.array(cfg["prefit"], dtype=float)
            kn.fit(Kp, sample_weight=pw)
        kn.fit(K.copy(), sample_weight=w_in)
        Ktr = kn.transform(K.copy())
        Kte = kn.transform(Kt.copy())
        scale = tr / n if cfg["with_trace"] else c.const(1)
        P.require_all(sc.arr_eq(Ktr * scale, G), "train-kernel==gram-of-centred-scaled-features")
        P.require_all(sc.arr_eq(Kte * scale, At @ A.T), "test-kernel==gram-of-centred-scaled-features")
        if cfg["with_trace"]:
            P.require(F_(arrays.trace(Ktr) == n), "transformed-train-trace==n")
        else:
            P.require(F_(core.SReal.lift(kn.scale_) == 1), "scale_-one-when-trace-off")
        kn2 = KernelNormalizer(with_center=cfg["with_center"], with_trace=cfg["with_trace"])
        ft = kn2.fit_transform(K.copy(), sample_weight=w_in) if w_in is not None else kn2.fit_transform(K.copy())
        P.require_all(sc.arr_eq(ft, Ktr), "fit_transform==fit+transform")
        return {"ok": True}

    def h_sparse(self, c, cfg, P, Phi, Pt, w_in, wn, mu):
        from skmatter.preprocessing import SparseKernelCenterer

        n, ma = cfg["n"], cfg["ma"]
        Pm = arrays.symbols("a", (ma, cfg["d"]))
        Knm = Phi @ Pm.T
        Kmm = Pm @ Pm.T
        Ktm = Pt @ Pm.T
        skc = SparseKernelCenterer(with_center=cfg["with_center"], with_trace=cfg["with_trace"])
        if cfg.get("prefit"):
            pw = None if cfg["prefit"] == "none" else np.array(cfg["prefit"], dtype=float)
            skc.fit(arrays.exact([[2], [1], [3]]), arrays.exact([[2]]), sample_weight=pw)
        skc.fit(Knm.copy(), Kmm.copy(), sample_weight=w_in)
        Kc = skc.transform(Knm.copy())
        Ktc = skc.transform(Ktm.copy())
        # oracle in feature space: centred features against the active set
        A = Phi - mu if cfg["with_center"] else Phi
        At = Pt - mu if cfg["with_center"] else Pt
        s = core.SReal.lift(skc.scale_)
        P.require_all(sc.arr_eq(Kc * s, A @ Pm.T), "train-block==centred-features-times-active")
        P.require_all(sc.arr_eq(Ktc * s, At @ Pm.T), "test-block==centred-features-times-active")
        if cfg["with_center"]:
            cm = (wn.reshape(n, 1) * Kc).sum(axis=0)
            P.require_all([F_(v == 0) for v in cm], "weighted-column-means-vanish")
        if cfg["with_trace"]:
            Kmm_inv = linalg.inv(Kmm)
            ny = Kc @ Kmm_inv @ Kc.T
            P.require(F_(arrays.trace(ny) == n), "centred-nystrom-trace==n")
        else:
            P.require(F_(s == 1), "scale_-one-when-trace-off")
        skc2 = SparseKernelCenterer(with_center=cfg["with_center"], with_trace=cfg["with_trace"])
        ft = skc2.fit_transform(Knm.copy(), Kmm.copy(), sample_weight=w_in)
        P.require_all(sc.arr_eq(ft, Kc), "fit_transform==fit+transform")
        return {"ok": True}

    # ------------------------------------------------------------------ float replay
    def concrete(self, cfg, values):
        from skmatter.preprocessing import KernelNormalizer, SparseKernelCenterer

        n, d, t = cfg["n"], cfg["d"], cfg["t"]
        Phi = np.array([[float(values.get(f"f_{i}_{j}", (i + 1) * 0.7 - j)) for j in range(d)] for i in range(n)])
        Pt = np.array([[float(values.get(f"g_{i}_{j}", 0.3 * i + j)) for j in range(d)] for i in range(t)])
        w_in, wn = float_weights(cfg, values, n)
        mu = wn @ Phi
        A = Phi - mu if cfg["with_center"] else Phi
        At = Pt - mu if cfg["with_center"] else Pt
        viol = []
        tol = 1e-7
        if cfg["kind"] == "normalizer":
            K, Kt = Phi @ Phi.T, Pt @ Phi.T
            G = A @ A.T
            scale = np.trace(G) / n if cfg["with_trace"] else 1.0
            kn = KernelNormalizer(with_center=cfg["with_center"], with_trace=cfg["with_trace"])
            if cfg.get("prefit"):
                pw = None if cfg["prefit"] == "none" else np.array(cfg["prefit"], dtype=float)
                kn.fit(np.array([[2.0, 1, 0], [1, 3, 1], [0, 1, 1]]), sample_weight=pw)
            kn.fit(K.copy(), sample_weight=w_in)
            Ktr, Kte = kn.transform(K.copy()), kn.transform(Kt.copy())
            if not np.allclose(Ktr * scale, G, atol=tol * max(1, np.abs(G).max())):
                viol.append(("train-kernel==gram-of-centred-scaled-features", float(np.abs(Ktr * scale - G).max())))
            if not np.allclose(Kte * scale, At @ A.T, atol=tol * max(1, np.abs(G).max())):
                viol.append(("test-kernel==gram-of-centred-scaled-features", float(np.abs(Kte * scale - At @ A.T).max())))
            if cfg["with_trace"] and abs(np.trace(Ktr) - n) > tol * n:
                viol.append(("transformed-train-trace==n", float(np.trace(Ktr))))
            ft = KernelNormalizer(with_center=cfg["with_center"], with_trace=cfg["with_trace"]).fit_transform(K.copy(), sample_weight=w_in) if w_in is not None \
                else KernelNormalizer(with_center=cfg["with_center"], with_trace=cfg["with_trace"]).fit_transform(K.copy())
            if not np.allclose(ft, Ktr, atol=tol):
                viol.append(("fit_transform==fit+transform", None))
            return {"ok": True}, viol
        ma = cfg["ma"]
        Pm = np.array([[float(values.get(f"a_{i}_{j}", 1.0 + i - 0.5 * j)) for j in range(d)] for i in range(ma)])
        Knm, Kmm, Ktm = Phi @ Pm.T, Pm @ Pm.T, Pt @ Pm.T
        skc = SparseKernelCenterer(with_center=cfg["with_center"], with_trace=cfg["with_trace"])
        if cfg.get("prefit"):
            pw = None if cfg["prefit"] == "none" else np.array(cfg["prefit"], dtype=float)
            skc.fit(np.array([[2.0], [1], [3]]), np.array([[2.0]]), sample_weight=pw)
        skc.fit(Knm.copy(), Kmm.copy(), sample_weight=w_in)
        Kc, Ktc = skc.transform(Knm.copy()), skc.transform(Ktm.copy())
        s = skc.scale_
        sc_ = max(1.0, float(np.abs(Knm).max()))
        if not np.allclose(Kc * s, A @ Pm.T, atol=tol * sc_):
            viol.append(("train-block==centred-features-times-active", None))
        if not np.allclose(Ktc * s, At @ Pm.T, atol=tol * sc_):
            viol.append(("test-block==centred-features-times-active", None))
        if cfg["with_center"] and np.abs(wn @ Kc).max() > tol * sc_:
            viol.append(("weighted-column-means-vanish", (wn @ Kc).tolist()))
        if cfg["with_trace"]:
            tr = np.trace(Kc @ np.linalg.pinv(Kmm) @ Kc.T)
            if abs(tr - n) > 1e-6 * n:
                viol.append(("centred-nystrom-trace==n", float(tr)))
        ft = SparseKernelCenterer(with_center=cfg["with_center"], with_trace=cfg["with_trace"]).fit_transform(Knm.copy(), Kmm.copy(), sample_weight=w_in)
        if not np.allclose(ft, Kc, atol=tol):
            viol.append(("fit_transform==fit+transform", None))
        return {"ok": True}, viol

    def signature(self, cfg, clause, values, viol):
        names = sorted(set(v[0] for v in viol))
        return f"C12/{cfg['kind']}{'/refit' if cfg.get('prefit') else ''}/{'+'.join(names)}/center={cfg['with_center']}/trace={cfg['with_trace']}/w={cfg['weights'] if isinstance(cfg['weights'], str) else 'int'}"


if __name__ == "__main__":
    sys.exit(runner.main(C12()))
