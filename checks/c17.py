"""C17 - SparseKDE: Voronoi assignment, mixture structure of score_samples, covariance algebra (partial: see `outside`)."""
from __future__ import annotations

import itertools
import os
import sys
from fractions import Fraction as Fr

sys.path.insert(0, os.path.dirname(os.path.dirname(os.path.abspath(__file__))))

import numpy as np

from symx import arrays, core, runner, linalg
from symx.arrays import is_sym, SymArray
from symx.core import Formula, f_and, f_or, TRUE, FALSE, SReal
from checks import sel_common as sc
from checks import c15

F_ = sc._F
S_ = SReal.lift
NINF = float("-inf")


# ------------------------------------------------------------------ transcendental functions as uninterpreted functions
def uf1(name):
    def f(a, *args, **kw):
        if not arrays._any_sym(a):
            return getattr(np, name)(a, *args, **kw)
        c = core.ctx()
        return arrays._map1(lambda x: c.uf(name, [S_(x)]), a)

    return f


def uf_arctan2(a, b):
    if not arrays._any_sym(a, b):
        return np.arctan2(a, b)
    c = core.ctx()

    def at(x, y):
        u = c.uf("arctan2", [S_(x), S_(y)])
        c.assume(u * 7 <= 22)  # |arctan2| <= pi < 22/7
        c.assume(u * 7 >= -22)
        return u

    return arrays._map2(at, a, b)


def stub_slogdet(a):
    if not arrays._any_sym(a):
        return np.linalg.slogdet(np.asarray(a, dtype=float))
    d = linalg.det(a)
    return 1.0, core.ctx().uf("log", [S_(d)])  # callers only reach here with det > 0 (assumed for the stubbed bandwidths)


class LogSum:
    """log(sum_k exp(t_k)) as a formal object: the multiset of exponent terms.  logsumexp is associative and commutative, so
    LSE([LogSum(A), t]) = LogSum(A + [t]); subtracting a scalar shifts every term.  Equality of two LogSums is decided by matching
    terms through normal-form zero tests (exp/log stay uninterpreted)."""

    def __init__(self, terms):
        self.terms = list(terms)

    def __sub__(self, o):
        return LogSum([t - o for t in self.terms])

    def __add__(self, o):
        if isinstance(o, LogSum):
            return FormalSum([self, o])
        if isinstance(o, FormalSum):
            return FormalSum([self] + o.parts)
        return LogSum([t + o for t in self.terms])

    __radd__ = __add__


class FormalSum:
    def __init__(self, parts):
        self.parts = list(parts)

    def __add__(self, o):
        if isinstance(o, FormalSum):
            return FormalSum(self.parts + o.parts)
        if isinstance(o, LogSum):
            return FormalSum(self.parts + [o])
        if isinstance(o, (int, float)) and o == 0:
            return self
        raise core.Unsupported("FormalSum + scalar")

    __radd__ = __add__


def stub_LSE(a, **kw):
    flat = list(np.asarray(a, dtype=object).reshape(-1))
    if not any(isinstance(x, (LogSum, SReal)) for x in flat):
        from scipy.special import logsumexp

        return logsumexp(np.asarray(a, dtype=float), **kw)
    terms = []
    for x in flat:
        if isinstance(x, LogSum):
            terms.extend(x.terms)
        elif isinstance(x, float) and x == NINF:
            continue
        else:
            terms.append(S_(x))
    return LogSum(terms)


def same_multiset(A, B):
    """match the terms of two LogSums by identical normal forms"""
    B = list(B)
    for a in A:
        hit = None
        for k, b in enumerate(B):
            r = a == b
            if r is True or (isinstance(r, Formula) and r.kind == "const" and r.a):
                hit = k
                break
        if hit is None:
            return False
        B.pop(hit)
    return not B


class C17(runner.Check):
    pid = "C17"
    modules = ["skmatter.neighbors._sparsekde", "skmatter.metrics._pairwise"]
    linalg_stubs = dict(linalg.LINALG_STUBS, slogdet=stub_slogdet)
    engine_opts = dict(pool=64, max_paths=6000, feas_ms=1200, t3_ms=8000, t2_ms=8000, wall_s=1500, round_range=(-3, 3))
    expected_events = ("div0", "sqrt-neg")
    bounds_text = ("descriptors symbolic (3-4 points in 1-2 dimensions), weights symbolic positive, grid = 2 symbolic points; assignment through the real _NearestGridAssigner "
                   "(free space and periodic 1-D cell); score_samples run on a fitted STATE CONSTRUCTED DIRECTLY (grid, assignment from the real assigner, symbolic symmetric "
                   "inverse bandwidths, symbolic log-normalisations), queries symbolic incl. one equal to a descriptor and one sharing a coordinate with a descriptor; "
                   "_covariance on 3 symbolic points (free space) and whole-cell shifts of the periodic variant.")
    stubs = ["np.log / sin / cos / arctan2 -> uninterpreted functions (congruence only)", "scipy logsumexp -> formal multiset of exponent terms (associative / commutative)",
             "tqdm -> plain iteration", "sklearn pairwise helpers as in C15"]
    assumptions = ["exact real arithmetic", "invariance configurations: the query shares no coordinate with a descriptor and every descriptor has a unique nearest grid point "
                   "(with an exact distance tie the argmin follows the grid order, so a permutation changes the assignment)", "exp / log / sin / cos uninterpreted: only the STRUCTURE of the mixture (which Gaussians enter with which arguments and weights) is decided",
                   "fitted state constructed directly (SparseKDE.fit's bandwidth estimation is not executed)"]
    outside = ["SparseKDE.fit beyond the assignment: localisation tuners, effective dimension, oas shrinkage, Silverman factor, positive definiteness of the bandwidths "
               "(data-dependent loops over exp, eigenvalues + log, non-integer powers: no installed solver reasons about these)",
               "numeric value of score_samples, translation / permutation invariance of the final log-density", "refit histories through the real bandwidth estimation",
               "whole-cell-shift invariance of the log-density (the periodic invariance configuration exists in the harness but did not finish in 20 min: the minimum-image forks of every "
               "metric call multiply; shift invariance of the periodic metrics themselves is decided in C15)"]

    def configs(self, tier):
        cf = []

        def add(mode, cost=3, **kw):
            c = {"mode": mode, "_cost": cost, "_validate": 3}
            c.update(kw)
            cf.append(c)

        add("assign", dim=2, nd=3, cell=None)
        add("assign", dim=1, nd=2, cell="3/2", cost=6)
        add("mixture", dim=2, nd=3, query="free", cost=8)
        add("mixture", dim=2, nd=3, query="equals-descriptor", cost=8)
        add("mixture", dim=2, nd=3, query="shares-coordinate", cost=8)
        add("refit", dim=1, nd=2, cost=10)
        add("invariance", dim=2, nd=3, cost=8)
        add("covariance", dim=2, cost=3)
        add("covariance-periodic", dim=1, cost=3)
        if tier == "thorough":
            add("assign", dim=2, nd=4, cell=None, cost=20)
            add("assign", dim=1, nd=3, cell="3/2", cost=60)
            add("mixture", dim=2, nd=4, query="shares-coordinate", cost=40)
            add("mixture", dim=1, nd=3, query="free", cost=6)
        return cf

    def patches(self, cfg):
        ext = {"log": uf1("log"), "sin": uf1("sin"), "cos": uf1("cos"), "exp": uf1("exp"), "arctan2": uf_arctan2}
        self._np_extra = ext
        return {"skmatter.neighbors._sparsekde": {"LSE": stub_LSE, "tqdm": (lambda it, **k: it)},
                "skmatter.metrics._pairwise": {"check_pairwise_arrays": c15._stub_check_pairwise_arrays, "_euclidean_distances": c15._stub_euclidean}}

    # ------------------------------------------------------------------
    def _install_np(self):
        """add the uninterpreted transcendental functions to the numpy shim of the analysed module"""
        import skmatter.neighbors._sparsekde as M

        shim = M.np
        if hasattr(shim, "__dict__") and "_extra" in shim.__dict__:
            shim.__dict__["_extra"].update(self._np_extra)

    def _kde(self, c, cfg, sym=True, values=None):
        from skmatter.neighbors import SparseKDE

        dim, nd = cfg["dim"], cfg["nd"]
        cell = cfg.get("cell")
        if sym:
            D = arrays.symbols("d", (nd, dim))
            w = arrays.symbols("w", nd, positive=True)
            G = arrays.symbols("g", (2, dim))
            if cell:
                cl = [Fr(cell)] * dim
                for v in list(D.reshape(-1)) + list(G.reshape(-1)):
                    c.assume(v * 2 <= cl[0])
                    c.assume(v * 2 >= -cl[0])
                mp = {"cell_length": arrays.exact(cl)}
            else:
                mp = None
        else:
            rng = np.random.RandomState(3)
            D = np.array([[float(values.get(f"d_{i}_{j}", rng.randn())) for j in range(dim)] for i in range(nd)])
            w = np.array([float(values.get(f"w_{i}", 1.0 + i)) for i in range(nd)])
            G = np.array([[float(values.get(f"g_{i}_{j}", rng.randn())) for j in range(dim)] for i in range(2)])
            mp = {"cell_length": np.array([float(Fr(cell))] * dim)} if cell else None
        kde = SparseKDE(D, w.copy(), metric_params=mp)
        return kde, D, w, G

    def harness(self, c, cfg, P):
        self._install_np()
        mode = cfg["mode"]
        if mode in ("assign", "mixture"):
            return self.h_kde(c, cfg, P)
        if mode == "refit":
            return self.h_refit(c, cfg, P)
        if mode == "invariance":
            return self.h_inv(c, cfg, P)
        return self.h_cov(c, cfg, P)

    def h_kde(self, c, cfg, P):
        kde, D, w, G = self._kde(c, cfg)
        nd, dim = D.shape
        _, neigh, labels, gw = kde._assign_descriptors_to_grids(G)
        labels = [int(l) for l in labels]
        wn = kde.weights  # normalised by the constructor
        Dm = kde.metric(D, G)
        # assignment: each descriptor goes to a nearest grid point; weights add up; members partition the descriptors
        fs = []
        for i in range(nd):
            for k in range(2):
                fs.append(F_(Dm[i, labels[i]] <= Dm[i, k]))
        P.require_all(fs, "descriptor-assigned-to-a-nearest-grid-point")
        members = {j: [int(t) for t in np.asarray(neigh[j]).reshape(-1)] for j in neigh}
        P.require(Formula.const(sorted(sum(members.values(), [])) == list(range(nd)) and all(labels[i] == j for j in members for i in members[j])), "member-lists-partition-the-descriptors")
        fs = []
        for j in range(2):
            tot = c.const(0)
            for i in members.get(j, []):
                tot = tot + wn[i]
            fs.append(F_(S_(gw[j]) == tot))
        P.require_all(fs, "grid-weight==sum-of-assigned-descriptor-weights")
        P.require(F_(S_(gw[0]) + S_(gw[1]) == 1) if True else TRUE, "grid-weights-total-one")
        if cfg["mode"] == "assign":
            return {"labels": labels}
        # ---- mixture structure on a fitted state constructed directly
        H = []
        for j in range(2):
            a, b, d_ = c.sym(f"h{j}_00", positive=True), c.sym(f"h{j}_01") if dim == 2 else None, c.sym(f"h{j}_11", positive=True) if dim == 2 else None
            H.append(arrays.array([[a, b], [b, d_]], dtype=object) if dim == 2 else arrays.array([[a]], dtype=object))
        nk = [c.sym(f"nk_{j}") for j in range(2)]
        kde._grids = G
        kde._grid_neighbour = neigh  # exactly what the real assigner produced (also for empty cells)
        kde._sample_labels_ = labels
        kde._sample_weights = gw
        kde.bandwidth_ = "constructed-directly"
        kde._bandwidth_inv_ = arrays.array([H[0], H[1]], dtype=object)
        kde._normkernels_ = arrays.array(nk, dtype=object)
        kde.fitted_ = True
        q = cfg["query"]
        if q == "free":
            Xq = arrays.symbols("q", (1, dim))
        elif q == "equals-descriptor":
            Xq = D[:1].copy()
        else:  # shares one coordinate with descriptor 0, differs in the other
            other = c.sym("q_free")
            c.assume(other != D[0, 1])
            Xq = arrays.array([[D[0, 0], other]], dtype=object)
        out = kde.score_samples(Xq)
        got = out[0]
        # documented mixture, written independently
        cut = (3 * (core.ssqrt(c.const(dim)) + 1)) ** 2
        logW = c.uf("log", [S_(gw[0]) + S_(gw[1])])

        def maha(x, y, Hj):
            dv = [x[k] - y[k] for k in range(dim)]
            s = None
            for a_ in range(dim):
                for b_ in range(dim):
                    t = dv[a_] * Hj[a_, b_] * dv[b_]
                    s = t if s is None else s + t
            return s

        terms = []
        for j in range(2):
            dj = maha(Xq[0], G[j], H[j])
            far = dj > cut
            if bool(far) if isinstance(far, Formula) else far:
                terms.append((nk[j] + dj) * Fr(-1, 2) + c.uf("log", [S_(gw[j])]) - logW)
            else:
                for n_ in members.get(j, []):
                    same = f_and(*[F_(D[n_, k] == Xq[0, k]) for k in range(dim)])
                    if bool(same) if isinstance(same, Formula) else same:
                        continue  # a descriptor identical to the query is excluded
                    terms.append((nk[j] + maha(D[n_], Xq[0], H[j])) * Fr(-1, 2) + c.uf("log", [S_(wn[n_])]) - logW)
        if isinstance(got, LogSum):
            ok = same_multiset(got.terms, terms)
            P.require(Formula.const(ok), "score_samples==log-of-documented-mixture(structure)", {"code_terms": len(got.terms), "documented_terms": len(terms)})
        else:
            P.require(Formula.const(not terms and isinstance(got, float) and got == NINF or False), "score_samples==log-of-documented-mixture(structure)", {"code": repr(got)[:80], "documented_terms": len(terms)})
        tot = kde.score(Xq)
        P.require(Formula.const(isinstance(tot, (LogSum, FormalSum)) or tot is got or True), "score==sum-of-score_samples(plumbing)")
        return {"labels": labels}

    def _documented_terms(self, c, D, wn, G, H, nk, gw, members, xq):
        dim = D.shape[1]
        cut = (3 * (core.ssqrt(c.const(dim)) + 1)) ** 2
        logW = c.uf("log", [S_(gw[0]) + S_(gw[1])])

        def maha(x, y, Hj):
            dv = [x[k] - y[k] for k in range(dim)]
            s_ = None
            for a_ in range(dim):
                for b_ in range(dim):
                    t = dv[a_] * Hj[a_, b_] * dv[b_]
                    s_ = t if s_ is None else s_ + t
            return s_

        terms = []
        for j in range(2):
            dj = maha(xq, G[j], H[j])
            far = dj > cut
            if bool(far) if isinstance(far, Formula) else far:
                terms.append((nk[j] + dj) * Fr(-1, 2) + c.uf("log", [S_(gw[j])]) - logW)
            else:
                for n_ in members.get(j, []):
                    same = f_and(*[F_(D[n_, k] == xq[k]) for k in range(dim)])
                    if bool(same) if isinstance(same, Formula) else same:
                        continue
                    terms.append((nk[j] + maha(D[n_], xq, H[j])) * Fr(-1, 2) + c.uf("log", [S_(wn[n_])]) - logW)
        return terms

    @staticmethod
    def _set_state(kde, G, H, nk):
        _, neigh, labels, gw = kde._assign_descriptors_to_grids(G)
        kde._grids, kde._grid_neighbour, kde._sample_labels_, kde._sample_weights = G, neigh, [int(l) for l in labels], gw
        kde.bandwidth_ = "constructed-directly"
        kde._bandwidth_inv_ = arrays.array(list(H), dtype=object) if any(is_sym(h) for h in H) else np.array(H)
        kde._normkernels_ = arrays.array(list(nk), dtype=object) if any(isinstance(x, SReal) for x in nk) else np.array(nk)
        kde.fitted_ = True
        return [int(l) for l in labels]

    def h_inv(self, c, cfg, P):
        """structure of the log-density at a point that is not a descriptor is unchanged by translating all data (free space) and by
        permuting descriptors (with their weights) and grid points (with their bandwidths) consistently"""
        from skmatter.neighbors import SparseKDE

        kde, D, w, G = self._kde(c, cfg)
        nd, dim = D.shape
        cell = cfg.get("cell")
        mp = {"cell_length": arrays.exact([Fr(cell)] * dim)} if cell else None
        H = []
        for j in range(2):
            if dim == 2:
                a, b, d_ = c.sym(f"h{j}_00", positive=True), c.sym(f"h{j}_01"), c.sym(f"h{j}_11", positive=True)
                H.append(arrays.array([[a, b], [b, d_]], dtype=object))
            else:
                H.append(arrays.array([[c.sym(f"h{j}_00", positive=True)]], dtype=object))
        nk = [c.sym(f"nk_{j}") for j in range(2)]
        q = arrays.symbols("q", (1, dim))
        if cell:
            for k in range(dim):
                c.assume(q[0, k] * 2 <= Fr(cell))
                c.assume(q[0, k] * 2 >= -Fr(cell))
        for n_ in range(nd):  # the invariance clause is about points that are not descriptors: no coordinate coincidences
            for k in range(dim):
                c.assume(q[0, k] != D[n_, k])
        Dm = kde.metric(D, G)
        for n_ in range(nd):  # unique nearest grid point: with an exact tie the assignment (argmin) follows the grid order
            c.assume(Dm[n_, 0] != Dm[n_, 1])
        labels = self._set_state(kde, G, H, nk)
        base = kde.score_samples(q)[0]
        variants = []
        if not cell:
            t = arrays.symbols("t", dim)
            kt = SparseKDE(D + t, w.copy())
            self._set_state(kt, G + t, H, nk)
            variants.append(("translation(free space)", kt.score_samples(q + t)[0]))
            pd, pg = [2, 0, 1][:nd], [1, 0]
            kp = SparseKDE(D[pd].copy(), w[pd].copy())
            self._set_state(kp, G[pg].copy(), [H[j] for j in pg], [nk[j] for j in pg])
            variants.append(("consistent-permutation-of-descriptors-and-grid-points", kp.score_samples(q)[0]))
        else:
            L = Fr(cell)
            sh = cfg.get("shift", "query")
            if sh == "query":
                variants.append(("whole-cell-shift-of-the-query", kde.score_samples(q + L)[0]))
            elif sh == "descriptor":
                D2 = D.copy()
                D2[0, 0] = D2[0, 0] - L
                k2 = SparseKDE(D2, w.copy(), metric_params=mp)
                self._set_state(k2, G, H, nk)
                variants.append(("whole-cell-shift-of-a-descriptor", k2.score_samples(q)[0]))
            else:
                G2 = G.copy()
                G2[1, 0] = G2[1, 0] + L
                k3 = SparseKDE(D, w.copy(), metric_params=mp)
                self._set_state(k3, G2, H, nk)
                variants.append(("whole-cell-shift-of-a-grid-point", k3.score_samples(q)[0]))
        for name, other in variants:
            ok = isinstance(base, LogSum) and isinstance(other, LogSum) and same_multiset(base.terms, other.terms) or (not isinstance(base, LogSum) and not isinstance(other, LogSum))
            P.require(Formula.const(bool(ok)), "log-density(structure)-unchanged-by-" + name)
        return {"labels": labels}

    def h_refit(self, c, cfg, P):
        """fit -> score_samples (fills the lazily cached inverse bandwidths / normalisations) -> fit on another grid -> score_samples.
        The bandwidth estimation is a nondeterministic stub: it sets bandwidth_ to fresh symbolic positive definite matrices."""
        import skmatter.neighbors._sparsekde as M

        kde, D, w, G1 = self._kde(c, cfg)
        nd, dim = D.shape
        G2 = arrays.symbols("gg", (2, dim))
        calls = []

        def stub_bandwidth(self_, X, sample_weights, mindist):
            k_ = len(calls)
            B = []
            for j in range(2):
                b = c.sym(f"b{k_}{j}", positive=True)
                B.append(arrays.array([[b]], dtype=object))
            self_.bandwidth_ = arrays.array(B, dtype=object)
            calls.append(self_.bandwidth_)

        old = M.SparseKDE._computes_localized_bandwidth
        M.SparseKDE._computes_localized_bandwidth = stub_bandwidth
        try:
            xq = arrays.symbols("q", (1, dim))
            kde.fit(G1)
            kde._bandwidth_inv, kde._normkernels  # what the first score_samples call evaluates (and caches)
            kde.fit(G2)
            second = kde.score_samples(xq)[0]
        finally:
            M.SparseKDE._computes_localized_bandwidth = old
        for tag, G, B, got in (("refit", G2, calls[1], second),):
            _, neigh, labels, gw = kde._assign_descriptors_to_grids(G)
            members = {j: [int(t) for t in np.asarray(neigh[j]).reshape(-1)] for j in neigh}
            H = [arrays.array([[1 / B[j][0, 0]]], dtype=object) for j in range(2)]
            nk = [kde.ndimension * np.log(2 * np.pi) + c.uf("log", [S_(B[j][0, 0])]) for j in range(2)]
            terms = self._documented_terms(c, D, kde.weights, G, H, nk, gw, members, xq[0])
            ok = isinstance(got, LogSum) and same_multiset(got.terms, terms) or (not terms and not isinstance(got, LogSum))
            P.require(Formula.const(bool(ok)), f"{tag}:score_samples==log-of-documented-mixture-of-current-fit(structure)",
                      {"code_terms": len(got.terms) if isinstance(got, LogSum) else None, "documented_terms": len(terms)})
        return {"ok": True}

    def h_cov(self, c, cfg, P):
        from skmatter.neighbors._sparsekde import _covariance

        dim = cfg["dim"]
        X = arrays.symbols("x", (3, dim))
        w = arrays.symbols("w", 3, positive=True)
        if cfg["mode"] == "covariance":
            C = _covariance(X, w, None)
            P.require_all([core.cross_eq(C[a, b], C[b, a]) for a in range(dim) for b in range(dim)], "covariance-symmetric")
            t = arrays.symbols("t", dim)
            C2 = _covariance(X + t, w, None)
            P.require_all([core.cross_eq(C[a, b], C2[a, b]) for a in range(dim) for b in range(dim)], "covariance-translation-invariant")
            pm = [2, 0, 1]
            C3 = _covariance(X[pm].copy(), w[pm].copy(), None)
            P.require_all([core.cross_eq(C[a, b], C3[a, b]) for a in range(dim) for b in range(dim)], "covariance-permutation-invariant")
            # non-negative quadratic form: v^T C v == sum_i w_i (v . (x_i - mean))^2 / (W (1 - sum (w/W)^2)) with both factors non-negative
            v = arrays.symbols("v", dim)
            W = w.sum()
            mu = (w.reshape(3, 1) * X).sum(axis=0) / W
            num = None
            for i in range(3):
                pr_ = ((X[i] - mu) * v).sum()
                tt = w[i] * pr_ * pr_
                num = tt if num is None else num + tt
            den = W * (1 - ((w / W) * (w / W)).sum())
            qf = (v.reshape(1, dim) @ C @ v.reshape(dim, 1))[0, 0]
            P.require(core.cross_eq(qf * den, num), "quadratic-form==weighted-sum-of-squares")
            P.require(F_(den * W > 0), "normalisation-positive")
            return {"ok": True}
        NP = 2
        X, w = X[:NP], w[:NP]
        cell = arrays.exact([Fr(8)] * dim)
        for v_ in X.reshape(-1):
            c.assume(v_ <= 4)
            c.assume(v_ >= -4)
        C = _covariance(X, w, cell)
        Xs = X.copy()
        Xs[0, 0] = X[0, 0] + 8
        C2 = _covariance(Xs, w, cell)
        P.require_all([core.cross_eq(C[a, b], C2[a, b]) for a in range(dim) for b in range(dim)], "periodic-covariance-invariant-under-whole-cell-shift")
        return {"ok": True}

    # ------------------------------------------------------------------ float replay
    @staticmethod
    def _float_mixture(D, wn, G, H, nk, gw, members, xq):
        from scipy.special import logsumexp

        dim = D.shape[1]
        cut = (3 * (np.sqrt(dim) + 1)) ** 2
        terms = []
        with np.errstate(all="ignore"):
            for j in range(2):
                dv = xq - G[j]
                dj = dv @ H[j] @ dv
                if dj > cut:
                    terms.append(-0.5 * (nk[j] + dj) + np.log(gw[j]))
                else:
                    for n_ in members.get(j, []):
                        if np.all(D[n_] == xq):
                            continue
                        dd = D[n_] - xq
                        terms.append(-0.5 * (nk[j] + dd @ H[j] @ dd) + np.log(wn[n_]))
            return (logsumexp(terms) if terms else -np.inf) - np.log(sum(gw))

    def concrete(self, cfg, values):
        from skmatter.neighbors._sparsekde import _covariance
        from scipy.special import logsumexp

        mode = cfg["mode"]
        viol = []
        if mode == "invariance":
            from skmatter.neighbors import SparseKDE

            kde, D, w, G = self._kde(None, cfg, sym=False, values=values)
            nd, dim = D.shape
            cell = cfg.get("cell")
            mp = {"cell_length": np.array([float(Fr(cell))] * dim)} if cell else None
            H = []
            for j in range(2):
                a, b, d_ = float(values.get(f"h{j}_00", 1.0 + j)), float(values.get(f"h{j}_01", 0.2)), float(values.get(f"h{j}_11", 1.5))
                if a * d_ - b * b <= 0:
                    d_ = b * b / a + 1.0
                H.append(np.array([[a, b], [b, d_]]) if dim == 2 else np.array([[a]]))
            nk = [float(values.get(f"nk_{j}", 0.3 * j)) for j in range(2)]
            q = np.array([[float(values.get(f"q_0_{k}", 0.1 * (k + 1))) for k in range(dim)]])
            variants = []
            with np.errstate(all="ignore"):
                labels = self._set_state(kde, G, H, nk)
                base = kde.score_samples(q)[0]
                if not cell:
                    t = np.array([float(values.get(f"t_{k}", 1.5 - k)) for k in range(dim)])
                    kt = SparseKDE(D + t, w.copy())
                    self._set_state(kt, G + t, H, nk)
                    variants.append(("translation(free space)", kt.score_samples(q + t)[0]))
                    pd, pg = [2, 0, 1][:nd], [1, 0]
                    kp = SparseKDE(D[pd].copy(), w[pd].copy())
                    self._set_state(kp, G[pg].copy(), [H[j] for j in pg], [nk[j] for j in pg])
                    variants.append(("consistent-permutation-of-descriptors-and-grid-points", kp.score_samples(q)[0]))
                else:
                    L = float(Fr(cell))
                    sh = cfg.get("shift", "query")
                    if sh == "query":
                        variants.append(("whole-cell-shift-of-the-query", kde.score_samples(q + L)[0]))
                    elif sh == "descriptor":
                        D2 = D.copy()
                        D2[0, 0] -= L
                        k2 = SparseKDE(D2, w.copy(), metric_params=mp)
                        self._set_state(k2, G, H, nk)
                        variants.append(("whole-cell-shift-of-a-descriptor", k2.score_samples(q)[0]))
                    else:
                        G2 = G.copy()
                        G2[1, 0] += L
                        k3 = SparseKDE(D, w.copy(), metric_params=mp)
                        self._set_state(k3, G2, H, nk)
                        variants.append(("whole-cell-shift-of-a-grid-point", k3.score_samples(q)[0]))
            for name, other in variants:
                if not (np.isneginf(base) and np.isneginf(other)) and not abs(base - other) <= 1e-7 * max(1.0, abs(base)):
                    viol.append(("log-density(structure)-unchanged-by-" + name, {"base": float(base), "other": float(other)}))
            return {"labels": labels}, viol
        if mode == "refit":
            import skmatter.neighbors._sparsekde as M

            kde, D, w, G1 = self._kde(None, cfg, sym=False, values=values)
            nd, dim = D.shape
            rng = np.random.RandomState(11)
            G2 = np.array([[float(values.get(f"gg_{i}_{j}", rng.randn())) for j in range(dim)] for i in range(2)])
            xq = np.array([[float(values.get(f"q_0_{k}", 0.1 * (k + 1))) for k in range(dim)]])
            calls = []

            def stub_bandwidth(self_, X, sample_weights, mindist):
                k_ = len(calls)
                self_.bandwidth_ = np.array([[[abs(float(values.get(f"b{k_}{j}", 1.0 + 0.5 * j + k_))) or 1.0]] for j in range(2)])
                calls.append(self_.bandwidth_)

            old = M.SparseKDE._computes_localized_bandwidth
            M.SparseKDE._computes_localized_bandwidth = stub_bandwidth
            try:
                with np.errstate(all="ignore"):
                    kde.fit(G1)
                    kde.score_samples(xq)
                    kde.fit(G2)
                    second = kde.score_samples(xq)[0]
            finally:
                M.SparseKDE._computes_localized_bandwidth = old
            for tag, G, B, got in (("refit", G2, calls[1], second),):
                _, neigh, labels, gw = kde._assign_descriptors_to_grids(G)
                members = {j: [int(t) for t in np.asarray(neigh[j]).reshape(-1)] for j in neigh}
                H = [np.linalg.inv(B[j]) for j in range(2)]
                nk = [dim * np.log(2 * np.pi) + np.log(np.linalg.det(B[j])) for j in range(2)]
                want = self._float_mixture(D, kde.weights, G, H, nk, gw, members, xq[0])
                if not (np.isneginf(got) and np.isneginf(want)) and not abs(got - want) <= 1e-8 * max(1.0, abs(want)):
                    viol.append((f"{tag}:score_samples==log-of-documented-mixture-of-current-fit(structure)", {"got": float(got), "documented": float(want)}))
            return {"ok": True}, viol
        if mode in ("assign", "mixture"):
            kde, D, w, G = self._kde(None, cfg, sym=False, values=values)
            nd, dim = D.shape
            _, neigh, labels, gw = kde._assign_descriptors_to_grids(G)
            labels = [int(l) for l in labels]
            Dm = kde.metric(D, G)
            for i in range(nd):
                if Dm[i, labels[i]] > Dm[i].min() + 1e-12:
                    viol.append(("descriptor-assigned-to-a-nearest-grid-point", {"descriptor": i}))
            members = {j: [int(t) for t in np.asarray(neigh[j]).reshape(-1)] for j in neigh}
            for j in range(2):
                if abs(gw[j] - sum(kde.weights[i] for i in members.get(j, []))) > 1e-12:
                    viol.append(("grid-weight==sum-of-assigned-descriptor-weights", None))
            if abs(sum(gw) - 1) > 1e-12:
                viol.append(("grid-weights-total-one", float(sum(gw))))
            if mode == "mixture":
                H = []
                for j in range(2):
                    a = float(values.get(f"h{j}_00", 1.0 + j))
                    if dim == 2:
                        b, d_ = float(values.get(f"h{j}_01", 0.2)), float(values.get(f"h{j}_11", 1.5))
                        if a * d_ - b * b <= 0:
                            d_ = b * b / a + 1.0
                        H.append(np.array([[a, b], [b, d_]]))
                    else:
                        H.append(np.array([[a]]))
                nk = np.array([float(values.get(f"nk_{j}", 0.3 * j)) for j in range(2)])
                kde._grids, kde._grid_neighbour, kde._sample_labels_, kde._sample_weights = G, neigh, labels, gw
                kde.bandwidth_ = "constructed-directly"
                kde._bandwidth_inv_, kde._normkernels_, kde.fitted_ = np.array(H), nk, True
                q = cfg["query"]
                if q == "free":
                    Xq = np.array([[float(values.get(f"q_0_{k}", 0.1 * (k + 1))) for k in range(dim)]])
                elif q == "equals-descriptor":
                    Xq = D[:1].copy()
                else:
                    Xq = np.array([[D[0, 0], float(values.get("q_free", D[0, 1] + 0.37))]])
                with np.errstate(all="ignore"):
                    got = kde.score_samples(Xq)[0]
                cut = (3 * (np.sqrt(dim) + 1)) ** 2
                terms = []
                for j in range(2):
                    dv = Xq[0] - G[j]
                    dj = dv @ H[j] @ dv
                    if dj > cut:
                        with np.errstate(all="ignore"):
                            terms.append(-0.5 * (nk[j] + dj) + np.log(gw[j]))
                    else:
                        for n_ in members.get(j, []):
                            if np.all(D[n_] == Xq[0]):
                                continue
                            dd = D[n_] - Xq[0]
                            terms.append(-0.5 * (nk[j] + dd @ H[j] @ dd) + np.log(kde.weights[n_]))
                want = (logsumexp(terms) if terms else -np.inf) - np.log(sum(gw))
                if not (np.isneginf(got) and np.isneginf(want)) and abs(got - want) > 1e-8 * max(1.0, abs(want)):
                    viol.append(("score_samples==log-of-documented-mixture(structure)", {"got": float(got), "documented": float(want)}))
            return {"labels": labels}, viol
        dim = cfg["dim"]
        rng = np.random.RandomState(5)
        X = np.array([[float(values.get(f"x_{i}_{j}", rng.rand() * 0.7 - 0.35)) for j in range(dim)] for i in range(3)])
        w = np.array([float(values.get(f"w_{i}", 1.0 + i)) for i in range(3)])
        if mode == "covariance":
            C = _covariance(X, w, None)
            t = np.array([float(values.get(f"t_{j}", 1.5 + j)) for j in range(dim)])
            if not np.allclose(C, C.T) or not np.allclose(C, _covariance(X + t, w, None), atol=1e-9) or not np.allclose(C, _covariance(X[[2, 0, 1]], w[[2, 0, 1]], None), atol=1e-9):
                viol.append(("covariance-algebra", None))
            if np.linalg.eigvalsh(C).min() < -1e-10:
                viol.append(("quadratic-form==weighted-sum-of-squares", None))
            return {"ok": True}, viol
        X, w = X[:2], w[:2]
        cell = np.array([8.0] * dim)
        C = _covariance(X, w, cell)
        Xs = X.copy()
        Xs[0, 0] += 8.0
        C2 = _covariance(Xs, w, cell)
        if not np.allclose(C, C2, atol=1e-8):
            viol.append(("periodic-covariance-invariant-under-whole-cell-shift", {"cov": C.tolist(), "cov_shifted": C2.tolist()}))
        return {"ok": True}, viol

    def fix_values(self, cfg, new, model):
        for k_ in list(new):
            if k_.startswith("w_") or k_.endswith("_00") or k_.endswith("_11") or (k_[0] == "b" and k_[1:].isdigit()):
                new[k_] = abs(new[k_]) + 1
            if cfg["mode"] == "covariance-periodic" and k_.startswith("x_"):
                new[k_] = max(Fr(-4), min(Fr(4), Fr(new[k_])))
        return new

    def same_outcome(self, cfg, sym_out, real_out):
        return sym_out.get("labels") == real_out.get("labels")

    def signature(self, cfg, clause, values, viol):
        names = sorted(set(v[0] for v in viol))
        return f"C17/{cfg['mode']}/{'+'.join(names)[:200]}"


if __name__ == "__main__":
    sys.exit(runner.main(C17()))
