"""C14 - PCovR's projectors form a consistent, nested, orthogonal decomposition."""
from __future__ import annotations

import os
import sys

sys.path.insert(0, os.path.dirname(os.path.dirname(os.path.abspath(__file__))))

import numpy as np

from symx import arrays, core, runner, linalg
from symx.core import Formula, f_and, f_or, TRUE, FALSE
from checks import sel_common as sc
from checks import pcovr_common as pc

F_ = sc._F


def fro2(A):
    A = np.asarray(A, dtype=object)
    s = None
    for v in A.reshape(-1):
        t = v * v
        s = t if s is None else s + t
    return s


class C14(runner.Check):
    pid = "C14"
    modules = pc.MODULES
    linalg_stubs = linalg.LINALG_STUBS
    engine_opts = dict(pool=48, max_paths=3000, feas_ms=1500, t3_ms=10000, t2_ms=10000, wall_s=1500)
    expected_events = ("div0", "singular", "sqrt-neg")
    bounds_text = ("factor family: X = U diag(s) V^T (4x2 quick; 4x3 thorough) with the Hadamard left frame (centred data) and right frames from the rational library, "
                   "Y = U diag(g) (1-2 targets, 1-D and 2-D), spectra s, g and mixing in (0,1] symbolic; n_components in 1..min(n,m); both spaces; "
                   "regressors precomputed (with / without W) and closed-form stand-ins of LinearRegression / Ridge(alpha symbolic); new data symbolic.")
    stubs = ["np.linalg.eigh / scipy.linalg.svd -> verified-frame decompositions (exact, eigenvalue order forked, non-negativity proved by the solver)",
             "sklearn Ridge / LinearRegression -> normal equations", "svd_flip -> identity (sign convention only)", "sklearn _BasePCA.transform runs unmodified"]
    assumptions = ["exact real arithmetic", "singular frames of X inside the finite rational library (spectra fully symbolic)", "0 < mixing <= 1", "every retained eigenvalue of the modified matrix exceeds tol (n_components <= numerical rank)"]
    outside = ["X whose singular frames are not in the library", "ARPACK / randomized SVD convergence"]

    def configs(self, tier):
        cf = []

        def add(space, k, p, V, reg, y1d=False, n=4, m=2, cost=2, **fam):
            f = {"V": V}
            f.update(fam)
            cf.append({"n": n, "m": m, "p": p, "k": k, "space": space, "reg": reg, "y1d": y1d, "family": f, "_cost": cost})

        for space in ("feature", "sample"):
            add(space, 1, 2, "R35", "precomputed")
            add(space, 2, 2, "R35", "precomputed", cost=4)
            add(space, 1, 1, "I", "precomputed", y1d=True)
            add(space, 2, 1, "R513", "ridge", cost=4)
            add(space, 1, 2, "R35", "ols", remainder=True)
        add("feature", 2, 2, "R35", "precomputed", cost=6, rankdef=True)  # singular covariance: the pseudo-inverse route must be taken
        if tier == "thorough":
            for space in ("feature", "sample"):
                for V in ("I", "R35", "R513", "F35", "R35R513"):
                    add(space, 2, 2, V, "ridge", cost=6, remainder=True)
                add(space, 2, 3, "H122", "precomputed", m=3, cost=30)
                add(space, 3, 2, "R35_01", "ols", m=3, cost=40, remainder=True)
                add(space, 2, 2, "R35", "precomputed", cost=6, rankdef=True)
        return cf

    def patches(self, cfg):
        return pc.patches()

    # ------------------------------------------------------------------
    def _fit(self, cfg, X, Y, mixing, k, alpha=None, W=None, sym=True):
        from skmatter.decomposition import PCovR

        est = PCovR(mixing=mixing, n_components=k, space=cfg["space"], svd_solver="full", regressor=pc.regressor_for(cfg, sym, alpha), tol=1e-12)
        if cfg["reg"] == "precomputed" and W is not None:
            est.fit(X, Y, W)
        else:
            est.fit(X, Y)
        return est

    def harness(self, c, cfg, P):
        fam = pc.make_family(c, cfg)
        X = fam["X"]
        Y = fam["Yin"] if cfg["reg"] == "precomputed" else fam["Y"]
        if cfg["y1d"]:
            Y = Y.reshape(-1)
        a = pc.mixing_symbol(c)
        c.assume(a > 0)
        alpha = c.sym("alpha", positive=True) if cfg["reg"] == "ridge" else None
        k, m = cfg["k"], cfg["m"]
        try:
            est = self._fit(cfg, X, Y, a, k, alpha)
        except ValueError as e:
            P.require(False, "fit-succeeds(1-D and 2-D targets, both spaces)", {"error": repr(e)[:200]})
            return {"fit_raises": True}
        # precondition: every retained eigenvalue exceeds the estimator's tolerance (k does not exceed the numerical rank
        # of the modified covariance / Gram matrix); paths on which the code zeroed a retained direction are excluded
        for i in range(k):
            c.assume(est.explained_variance_[i] * (cfg["n"] - 1) > core.Fraction("1e-12"))
        # 1. transform(X) == X pxt_ on training and new data
        Xn = arrays.symbols("z", (2, m))
        T = est.transform(X)
        Tn = est.transform(Xn)
        P.require_all(sc.arr_eq(T, X @ est.pxt_) + sc.arr_eq(Tn, Xn @ est.pxt_), "transform==X@pxt_")
        # 2. predict(X) == predict(T=transform(X))
        P.require_all(sc.arr_eq(est.predict(Xn), est.predict(T=Tn)) + sc.arr_eq(est.predict(X), est.predict(T=T)), "predict(X)==predict(T=transform(X))")
        # 3. latent coordinates orthogonal, squared norms == retained eigenvalues
        TtT = T.T @ T
        sv = est.singular_values_
        fs = []
        for i in range(k):
            for j in range(k):
                fs.append(F_(TtT[i, j] == (sv[i] * sv[i] if i == j else 0)))
        P.require_all(fs, "latent-coordinates-orthogonal-with-eigenvalue-norms")
        # 4. transform(inverse_transform(T')) == T'
        Tq = arrays.symbols("t", (2, k))
        back = est.transform(est.inverse_transform(Tq))
        P.require_all(sc.arr_eq(back, Tq), "transform(inverse_transform(T))==T")
        # 6. score == -(lX + lY)
        Yr = Y if Y.ndim == 2 else Y.reshape(-1, 1)
        xr = T @ est.ptx_
        yr = (T @ np.asarray(est.pty_, dtype=object).reshape(k, -1))
        lx = fro2(X - xr) / fro2(X)
        ly = fro2(Yr - yr) / fro2(Yr)
        scv = est.score(X, Y)
        P.require(core.cross_eq(scv, -(lx + ly)), "score==-(lX+lY)")
        # 7. shapes for 1-D y
        if cfg["y1d"]:
            P.require(Formula.const(np.ndim(est.pxy_) == 1 and np.ndim(est.pty_) == 1 and np.ndim(est.predict(Xn)) == 1), "1-D-y-gives-1-D-coefficients-and-predictions")
        else:
            P.require(Formula.const(np.shape(est.pxy_) == (m, cfg["p"]) and np.shape(est.predict(Xn)) == (2, cfg["p"])), "2-D-y-shapes")
        # 5. nestedness and monotone losses in k (full solver)
        if k >= 2:
            est1 = self._fit(cfg, X, Y, a, k - 1, alpha)
            fs = []
            for j in range(k - 1):
                col_eq = f_and(*sc.arr_eq(est1.pxt_[:, j], est.pxt_[:, j]))
                col_neg = f_and(*sc.arr_eq(est1.pxt_[:, j], -est.pxt_[:, j]))
                fs.append(f_or(col_eq, col_neg))
            P.require_all(fs, "components-nested(k-1 are the first of k, up to sign)")
            T1 = est1.transform(X)
            lx1 = fro2(X - T1 @ est1.ptx_)
            ly1 = fro2(Yr - T1 @ np.asarray(est1.pty_, dtype=object).reshape(k - 1, -1))
            P.require(F_(fro2(X - xr) <= lx1), "reconstruction-loss-nonincreasing-in-k")
            P.require(F_(fro2(Yr - yr) <= ly1), "regression-loss-nonincreasing-in-k")
        return {"k": k}

    # ------------------------------------------------------------------ float replay
    def concrete(self, cfg, values):
        X, Y, Yin = pc.float_family(cfg, values)
        if cfg["reg"] == "precomputed":
            Y = Yin
        if cfg["y1d"]:
            Y = Y.reshape(-1)
        a = float(values.get("mix", 0.5)) or 0.5
        alpha = float(values.get("alpha", 0.5))
        k, m = cfg["k"], cfg["m"]
        viol = []
        try:
            est = self._fit(cfg, X, Y, a, k, alpha, sym=False)
        except ValueError as e:
            return {"fit_raises": True}, [("fit-succeeds(1-D and 2-D targets, both spaces)", repr(e)[:200])]
        if np.any(est.explained_variance_ * (cfg["n"] - 1) <= 1e-10):
            return {"k": k, "degenerate": True}, []
        rng = np.random.RandomState(3)
        Xn = np.array([[float(values.get(f"z_{i}_{j}", rng.randn())) for j in range(m)] for i in range(2)])
        T, Tn = est.transform(X), est.transform(Xn)
        tol = 1e-7

        def close(A, B):
            A, B = np.asarray(A, dtype=float), np.asarray(B, dtype=float)
            return A.shape == B.shape and np.allclose(A, B, atol=tol * max(1.0, np.abs(B).max() if B.size else 1.0))

        if not close(T, X @ est.pxt_) or not close(Tn, Xn @ est.pxt_):
            viol.append(("transform==X@pxt_", None))
        if not close(est.predict(Xn), est.predict(T=Tn)):
            viol.append(("predict(X)==predict(T=transform(X))", None))
        if not close(T.T @ T, np.diag(est.singular_values_**2)):
            viol.append(("latent-coordinates-orthogonal-with-eigenvalue-norms", (T.T @ T).tolist()))
        Tq = np.array([[float(values.get(f"t_{i}_{j}", rng.randn())) for j in range(k)] for i in range(2)])
        try:
            if not close(est.transform(est.inverse_transform(Tq)), Tq):
                viol.append(("transform(inverse_transform(T))==T", None))
            Yr = Y.reshape(len(Y), -1)
            xr = T @ est.ptx_
            yr = T @ np.asarray(est.pty_).reshape(k, -1)
            want = -(np.linalg.norm(X - xr) ** 2 / np.linalg.norm(X) ** 2 + np.linalg.norm(Yr - yr) ** 2 / np.linalg.norm(Yr) ** 2)
            if abs(est.score(X, Y) - want) > 1e-7 * max(1.0, abs(want)):
                viol.append(("score==-(lX+lY)", [float(est.score(X, Y)), float(want)]))
        except ValueError as e:
            viol.append(("score/predict-raise", repr(e)[:120]))
        if cfg["y1d"] and not (np.ndim(est.pxy_) == 1 and np.ndim(est.pty_) == 1 and np.ndim(est.predict(Xn)) == 1):
            viol.append(("1-D-y-gives-1-D-coefficients-and-predictions", [list(np.shape(est.pxy_)), list(np.shape(est.pty_))]))
        if k >= 2:
            est1 = self._fit(cfg, X, Y, a, k - 1, alpha, sym=False)
            for j in range(k - 1):
                if not (close(est1.pxt_[:, j], est.pxt_[:, j]) or close(est1.pxt_[:, j], -est.pxt_[:, j])):
                    viol.append(("components-nested(k-1 are the first of k, up to sign)", j))
            T1 = est1.transform(X)
            Yr = Y.reshape(len(Y), -1)
            if np.linalg.norm(X - T @ est.ptx_) > np.linalg.norm(X - T1 @ est1.ptx_) * (1 + 1e-9) + 1e-12:
                viol.append(("reconstruction-loss-nonincreasing-in-k", None))
        return {"k": k}, viol

    def fix_values(self, cfg, new, model):
        for k_ in list(new):
            if k_.startswith("s_"):
                new[k_] = abs(new[k_]) + 1
        new["mix"] = model.get("mix") if model.get("mix") not in (None, 0) else core.Fraction(1, 2)
        if "alpha" in model:
            new["alpha"] = model["alpha"]
        return new

    def same_outcome(self, cfg, sym_out, real_out):
        return sym_out.get("k") == real_out.get("k")

    def signature(self, cfg, clause, values, viol):
        names = sorted(set(v[0] for v in viol))
        return f"C14/{cfg['space']}/{cfg['reg']}/{'+'.join(names)[:200]}"


if __name__ == "__main__":
    sys.exit(runner.main(C14()))
