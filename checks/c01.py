"""C01 - every selector returns a consistent set of distinct, valid indices."""
from __future__ import annotations

import os
import sys

sys.path.insert(0, os.path.dirname(os.path.dirname(os.path.abspath(__file__))))

import numpy as np

from symx import arrays, core, runner, linalg
from symx.core import Formula, f_and, f_or, TRUE, FALSE
from checks import sel_common as sc
from checks import cur_stubs

INF = float("inf")


def implied_size(n_to_select, ncand):
    if n_to_select is None:
        return ncand // 2
    if isinstance(n_to_select, int):
        return n_to_select
    return int(ncand * n_to_select)


class C01(runner.Check):
    pid = "C01"
    modules = sc.SEL_MODULES
    linalg_stubs = linalg.LINALG_STUBS
    engine_opts = dict(pool=48, max_paths=8000, feas_ms=1200, t3_ms=8000, t2_ms=8000, wall_s=1500)
    expected_events = ("div0", "singular")
    bounds_text = ("selectors FPS, PCov-FPS (sample), CUR, PCov-CUR (sample), VoronoiFPS in both directions where defined; <=5 candidates, "
                   "<=4 selections; n_to_select in {None, int, float}; symbolic score threshold (absolute and relative); initialise int/list; "
                   "cold fits and one warm-started continuation; X, y fully symbolic (CUR family: svds/eigsh/eigh are uninterpreted with unit-norm and "
                   "zero-column contract).")
    stubs = ["sklearn validators (aliasing contract)", "np.minimum -> ite atoms", "np.argmax -> fork on result",
             "scipy svds / eigsh / eigh for CUR family -> uninterpreted outputs with contract (unit norm, zero row/column of a nonzero matrix gives zero entry)"]
    assumptions = ["exact real arithmetic", "CUR family: singular vectors trusted by contract; every obligation carries the hypothesis that each matrix handed to svds/eigsh/eigh is nonzero (rank of X exceeds the number of selections); CUR tolerance hyper-parameter = 0 in symbolic runs (a selected column of norm exactly 0 ends the path)"]
    outside = ["more than 5 candidates / 4 selections", "float-only tie effects", "PCov-FPS / PCov-CUR feature direction (needs eigen-decomposition of free X^T X)"]

    def configs(self, tier):
        cf = []

        def add(cls, d, n, m, nts, init=0, thr=None, warm=None, p=0, cost=1, **params):
            pr = {"n_to_select": nts}
            if cls in ("FPS", "PCovFPS", "VoronoiFPS"):
                pr["initialize"] = init
            if thr:
                pr["score_threshold_type"] = thr
            pr.update(params)
            cf.append({"cls": cls, "dir": d, "n": n, "m": m, "p": p, "params": pr, "thr": thr, "warm": warm, "_cost": cost})

        # FPS family
        add("FPS", "sample", 4, 2, 3, cost=2)
        add("FPS", "sample", 4, 2, None, init=1)
        add("FPS", "sample", 4, 2, 0.75, init=3, cost=2)
        add("FPS", "sample", 4, 2, 1.0, init=[0, 2], cost=3)
        add("FPS", "feature", 2, 4, 3, init=2, cost=2)
        add("FPS", "feature", 2, 4, None, init=[3, 1])
        add("FPS", "sample", 4, 2, 3, thr="absolute", cost=3)
        add("FPS", "sample", 4, 2, 4, init=[1, 2], thr="absolute", cost=3)
        add("FPS", "feature", 2, 4, 3, thr="relative", cost=3)
        add("FPS", "sample", 4, 2, 2, warm=3, cost=3)
        add("FPS", "sample", 4, 2, 2, warm=4, thr="absolute", cost=4)
        add("FPS", "sample", 4, 2, 3, p=1, thr="absolute", cost=3)
        add("PCovFPS", "sample", 4, 2, 3, p=1, cost=6)
        add("PCovFPS", "sample", 3, 2, 2, p=1, warm=3, cost=3)
        add("PCovFPS", "sample", 3, 2, 3, p=1, thr="absolute", cost=3)
        # CUR family (UF scores)
        add("CUR", "feature", 3, 3, 2, cost=3)
        add("CUR", "sample", 3, 3, 2, cost=3)
        add("CUR", "feature", 3, 3, 2, recompute_every=0, cost=1)
        add("CUR", "feature", 3, 3, 2, recompute_every=2, cost=2)
        add("CUR", "feature", 3, 3, 3, recompute_every=2, cost=4)
        add("CUR", "feature", 3, 3, 2, thr="absolute", cost=3)
        add("CUR", "feature", 3, 3, 1, warm=2, cost=3)
        add("CUR", "feature", 3, 3, 1, warm=3, recompute_every=0, cost=2)
        add("PCovCUR", "sample", 3, 2, 2, p=1, cost=4)
        if tier == "thorough":
            add("FPS", "sample", 5, 2, 4, cost=20)
            add("FPS", "sample", 5, 2, 0.7, init=4, thr="absolute", cost=10)
            add("FPS", "sample", 5, 3, None, init=[2, 4], cost=5)
            add("FPS", "feature", 3, 4, 4, cost=8)
            add("FPS", "feature", 3, 5, 3, thr="relative", cost=10)
            add("FPS", "sample", 4, 3, 2, warm=4, cost=8)
            add("FPS", "sample", 5, 2, 2, warm=3, cost=8)
            add("PCovFPS", "sample", 4, 2, 4, p=1, thr="relative", cost=20)
            add("PCovFPS", "sample", 4, 2, 2, p=1, warm=4, cost=20)
            add("CUR", "feature", 3, 4, 3, cost=20)
            add("CUR", "sample", 4, 3, 2, cost=10)
            add("CUR", "sample", 3, 3, 2, thr="relative", cost=5)
            add("CUR", "sample", 3, 3, 1, warm=2, cost=5)
            add("CUR", "feature", 3, 4, 3, recompute_every=2, cost=10)
            add("PCovCUR", "sample", 3, 2, 1, p=1, warm=2, cost=6)
            add("PCovCUR", "sample", 3, 2, 2, p=1, thr="absolute", cost=6)
        return cf

    def patches(self, cfg):
        return cur_stubs.patches()

    # ------------------------------------------------------------------ symbolic
    def _mk(self, c, cfg, nts=None):
        over = {}
        if nts is not None:
            over["n_to_select"] = nts
        return over

    def harness(self, c, cfg, P):
        cur_stubs.reset()
        self._sel = None
        if cfg["cls"] in ("CUR", "PCovCUR"):
            # CUR family: decomposed matrices nonzero, and every greedy pick had a positive score (the
            # all-scores-zero case is the recorded exhausted-candidates finding; it does not survive float noise)
            P.hyp = lambda: f_and(*(list(cur_stubs.NONZERO) + [sc._F(s > 0) for (_, s, _) in (self._sel._symx_pick_scores if self._sel is not None else [])]))
        X, y = sc.sym_inputs(cfg)
        over = {}
        thr = None
        if cfg["thr"]:
            thr = c.sym("thr")
            over["score_threshold"] = thr
        mixing = None
        if cfg["cls"] in ("PCovFPS", "PCovCUR"):
            mixing = c.sym("mix")
            c.assume(mixing >= 0)
            c.assume(mixing < 1)
            over["mixing"] = mixing
        if cfg["cls"] in ("CUR", "PCovCUR"):
            over["tolerance"] = 0
        sel = sc.record_scores(sc.make_selector(cfg, **over))
        self._sel = sel
        d = cfg["dir"]
        ncand = X.shape[0] if d == "sample" else X.shape[1]
        with sc.quiet() as w:
            sel.fit(X, y)
            stopped = any("Score threshold" in str(x.message) for x in w)
        nts = cfg["params"]["n_to_select"]
        if cfg["warm"]:
            sel.n_to_select = cfg["warm"]
            nts = cfg["warm"]
            if not stopped:
                with sc.quiet() as w:
                    sel.fit(X, y, warm_start=True)
                    stopped = any("Score threshold" in str(x.message) for x in w)
        self.assert_consistent(c, cfg, P, sel, X, y, nts, ncand, stopped, thr)
        return {"selected": [int(i) for i in sel.selected_idx_], "stopped": bool(stopped), "n_selected": int(sel.n_selected_)}

    def assert_consistent(self, c, cfg, P, sel, X, y, nts, ncand, stopped, thr):
        d = cfg["dir"]
        idx = [int(i) for i in sel.selected_idx_]
        want = implied_size(nts, ncand)
        P.require(Formula.const(len(set(idx)) == len(idx)), "distinct", {"selected": idx})
        P.require(Formula.const(all(0 <= i < ncand for i in idx)), "in-range", {"selected": idx})
        P.require(Formula.const(len(idx) == int(sel.n_selected_)), "length==n_selected_", {"selected": idx, "n_selected_": int(sel.n_selected_)})
        if stopped:
            P.require(Formula.const(len(idx) <= want), "size<=implied-on-threshold-stop", {"selected": idx, "want": want})
        else:
            P.require(Formula.const(len(idx) == want), "size==implied", {"selected": idx, "want": want})
        # stored data equals the slices, in selection order
        if d == "feature":
            ref = X[:, idx] if idx else X[:, :0]
        else:
            ref = X[idx] if idx else X[:0]
        P.require_all(sc.arr_eq(sel.X_selected_, ref), "X_selected_==slice", {"shape": list(np.shape(sel.X_selected_)), "want": list(ref.shape)})
        if d == "sample" and y is not None:
            P.require_all(sc.arr_eq(sel.y_selected_, y[idx]), "y_selected_==slice", {"shape": list(np.shape(sel.y_selected_))})
        mask = np.zeros(ncand, dtype=bool)
        mask[[i for i in idx if 0 <= i < ncand]] = True
        sup = sel.get_support()
        P.require(Formula.const(sup.dtype == bool and sup.shape == (ncand,) and bool((sup == mask).all())), "support-mask")
        P.require(Formula.const(list(sel.get_support(indices=True)) == sorted(idx)), "support-indices-sorted")
        P.require(Formula.const([int(i) for i in sel.get_support(indices=True, ordered=True)] == idx), "support-indices-ordered")
        if d == "feature":
            Xt = sel.transform(X)
            P.require_all(sc.arr_eq(Xt, X[:, mask]), "transform==masked-columns")
        # threshold: kept greedy picks scored at or above the threshold
        if thr is not None:
            sco = getattr(sel, "_symx_pick_scores", None)
            if sco is not None:
                fs = []
                for (k, s, first) in sco[: max(0, len(idx))]:
                    if k >= len(idx):
                        continue
                    if cfg["thr"] == "absolute":
                        fs.append(sc.ge(s, thr))
                    else:
                        fs.append(sc.ge(s / first, thr) if not isinstance(first, float) else TRUE)
                P.require_all(fs, "kept-picks-score>=threshold")

    # ------------------------------------------------------------------ float replay
    def concrete(self, cfg, values):
        X, y = sc.float_inputs(cfg, values)
        over = {}
        thr = None
        if cfg["thr"]:
            thr = float(values.get("thr", 0))
            over["score_threshold"] = thr
        if cfg["cls"] in ("PCovFPS", "PCovCUR"):
            over["mixing"] = float(values.get("mix", 0.5))
        sel = sc.record_scores(sc.make_selector(cfg, **over))
        d = cfg["dir"]
        ncand = X.shape[0] if d == "sample" else X.shape[1]
        with cur_stubs.recording() as rec:
            with sc.quiet() as w:
                sel.fit(X, y)
                stopped = any("Score threshold" in str(x.message) for x in w)
            nts = cfg["params"]["n_to_select"]
            if cfg["warm"]:
                sel.n_to_select = cfg["warm"]
                nts = cfg["warm"]
                if not stopped:
                    with sc.quiet() as w:
                        sel.fit(X, y, warm_start=True)
                        stopped = any("Score threshold" in str(x.message) for x in w)
        self._contract_bad = list(rec.bad)
        idx = [int(i) for i in sel.selected_idx_]
        viol = []
        if thr is not None:
            for (k, s, first) in sel._symx_pick_scores:
                if k >= len(idx):
                    continue
                v = s if cfg["thr"] == "absolute" else (s / first if np.isfinite(first) else np.inf)
                if v < thr - 1e-9 * max(1.0, abs(thr)):
                    viol.append(("kept-picks-score>=threshold", {"pick": k, "score": float(v), "thr": thr}))
        want = implied_size(nts, ncand)
        if len(set(idx)) != len(idx):
            viol.append(("distinct", {"selected": idx}))
        if not all(0 <= i < ncand for i in idx):
            viol.append(("in-range", {"selected": idx}))
        if len(idx) != int(sel.n_selected_):
            viol.append(("length==n_selected_", {"selected": idx, "n_selected_": int(sel.n_selected_)}))
        if stopped and len(idx) > want:
            viol.append(("size<=implied-on-threshold-stop", {"selected": idx}))
        if not stopped and len(idx) != want:
            viol.append(("size==implied", {"selected": idx, "want": want}))
        ref = X[:, idx] if d == "feature" else X[idx]
        if np.shape(sel.X_selected_) != ref.shape or not np.allclose(sel.X_selected_, ref):
            viol.append(("X_selected_==slice", {"shape": list(np.shape(sel.X_selected_)), "want": list(ref.shape)}))
        if d == "sample" and y is not None:
            if np.shape(sel.y_selected_) != y[idx].shape or not np.allclose(sel.y_selected_, y[idx]):
                viol.append(("y_selected_==slice", {"shape": list(np.shape(sel.y_selected_)), "want": list(y[idx].shape)}))
        mask = np.zeros(ncand, dtype=bool)
        mask[[i for i in idx if 0 <= i < ncand]] = True
        if not (sel.get_support() == mask).all():
            viol.append(("support-mask", None))
        if list(sel.get_support(indices=True)) != sorted(idx):
            viol.append(("support-indices-sorted", None))
        if d == "feature":
            Xt = sel.transform(X)
            if Xt.shape != X[:, mask].shape or not np.allclose(Xt, X[:, mask]):
                viol.append(("transform==masked-columns", None))
        tags = []
        names = [v[0] for v in viol]
        if "distinct" in names:
            # structural cause: at the first repeated pick every unselected candidate was exhausted
            # (zero distance to / fully explained by the selected set)
            t = next(i for i in range(len(idx)) if idx[i] in idx[:i])
            if self._exhausted(cfg, X, y, idx[:t], over):
                tags.append("exhausted-candidates")
        if stopped and len(idx) < int(sel.n_selected_) and ("length==n_selected_" in names):
            tags.append("threshold-stop-truncation")
        if tags:
            viol = [("tags:" + "&".join(tags), None)] + viol
        return {"selected": idx, "stopped": bool(stopped), "n_selected": int(sel.n_selected_)}, viol

    def _exhausted(self, cfg, X, y, prev, over):
        d = cfg["dir"]
        ncand = X.shape[0] if d == "sample" else X.shape[1]
        rest = [j for j in range(ncand) if j not in prev]
        if cfg["cls"] in ("FPS", "PCovFPS", "VoronoiFPS"):
            c2 = dict(cfg)
            if cfg["cls"] == "VoronoiFPS":
                c2["cls"] = "FPS"
            D = sc.true_dist_matrix(c2, X, y, over.get("mixing"))
            return bool(np.all(D[np.ix_(rest, prev)].min(axis=1) <= sc.tol_of(D)))
        V = X if d == "feature" else X.T  # candidates are columns of V
        S = V[:, prev]
        R = V - S @ np.linalg.pinv(S) @ V
        return bool(np.max(np.abs(R[:, rest])) <= 1e-8 * max(1.0, np.max(np.abs(V))))

    def same_outcome(self, cfg, sym_out, real_out):
        if cfg["cls"] in ("CUR", "PCovCUR"):
            # scores are uninterpreted on the symbolic side: the real run follows some other path; what is
            # validated here is the stub contract on the actual svds/eigsh/eigh outputs of this run
            return not self._contract_bad
        return runner._jsonable(sym_out) == runner._jsonable(real_out)

    def signature(self, cfg, clause, values, viol):
        names = sorted(set(v[0] for v in viol if not v[0].startswith("tags:")))
        tags = [v[0][5:] for v in viol if v[0].startswith("tags:")]
        hist = "warm" if cfg["warm"] else "cold"
        t = "thr" if cfg["thr"] else "nothr"
        return f"C01/{tags[0] if tags else 'untagged'}/{'+'.join(names)}/{cfg['cls']}/{cfg['dir']}/{hist}/{t}"


if __name__ == "__main__":
    sys.exit(runner.main(C01()))
