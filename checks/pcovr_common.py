"""Shared harness pieces for PCovR (C03, C04, C14): factor-family data, stubs of the decomposition / regression
environment, construction and fit of the estimator."""
from __future__ import annotations

from fractions import Fraction as Fr

import numpy as np

from symx import arrays, core, linalg
from symx.arrays import SymArray, is_sym
from symx.core import Formula, f_and, f_or, TRUE, FALSE, SReal
from checks import frames
from checks import sel_common as sc

F_ = sc._F

MODULES = ["skmatter.decomposition._pcovr", "skmatter.utils._pcovr_utils", "skmatter.decomposition._kernel_pcovr", "skmatter.preprocessing._data"]


# ------------------------------------------------------------------ stubs
class _ScipyLinalg:
    svd = staticmethod(linalg.svd)
    eigh = staticmethod(linalg.eigh)
    inv = staticmethod(linalg.inv)
    pinv = staticmethod(linalg.pinv)


def stub_svds(mat, k=6, tol=0, v0=None, **kw):
    """ARPACK stand-in: exact top-k of the verified-frame SVD, returned in ASCENDING order like scipy's svds"""
    if not is_sym(mat):
        from scipy.sparse.linalg import svds as real

        return real(mat, k=k, tol=tol, v0=v0, **kw)
    U, S, Vt = linalg.svd(mat, full_matrices=False)
    U, S, Vt = U[:, :k], S[:k], Vt[:k]
    return U[:, ::-1].copy().view(SymArray), S[::-1].copy().view(SymArray), Vt[::-1].copy().view(SymArray)


def stub_randomized_svd(M, n_components, **kw):
    if not is_sym(M):
        from sklearn.utils.extmath import randomized_svd as real

        return real(M, n_components=n_components, **kw)
    U, S, Vt = linalg.svd(M, full_matrices=False)
    return U[:, :n_components], S[:n_components], Vt[:n_components]


def stub_svd_flip(u, v, u_based_decision=True):
    """sign convention only (every clause is stated up to the sign of each component)"""
    if not is_sym(u) and not is_sym(v):
        from sklearn.utils.extmath import svd_flip as real

        return real(u, v, u_based_decision=u_based_decision)
    return u, v


class ClosedFormLinear:
    """stands in for sklearn LinearRegression / Ridge(fit_intercept=False): normal equations"""

    def __init__(self, alpha=0):
        self.alpha = alpha
        self.fit_intercept = False

    def fit(self, X, y):
        m = X.shape[1]
        A = X.T @ X + self.alpha * arrays.eye(m)
        Y2 = y.reshape(X.shape[0], -1)
        W = linalg.pinv(A) @ (X.T @ Y2)
        self.coef_ = W.T if y.ndim == 2 else W.reshape(-1)
        self.n_features_in_ = m
        return self

    def predict(self, X):
        W = np.asarray(self.coef_, dtype=object).reshape(-1, X.shape[1]).T.view(SymArray)
        out = X @ W
        return out if np.ndim(self.coef_) == 2 else out.reshape(-1)


def stub_check_lr_fit(regressor, X, y):
    if not is_sym(X) and not is_sym(y):
        from skmatter.utils._pcovr_utils import check_lr_fit as real  # noqa

        return _REAL["check_lr_fit"](regressor, X, y)
    alpha = getattr(regressor, "alpha", 0)
    if hasattr(regressor, "coef_") and isinstance(regressor, ClosedFormLinear):
        return regressor
    return ClosedFormLinear(alpha).fit(X, y)


_REAL = {}


def stub_sqrtm(A):
    """scipy.linalg.sqrtm of a symmetric positive semi-definite matrix diagonalised by a library frame: Q diag(sqrt(d)) Q^T"""
    if not is_sym(A):
        import scipy.linalg

        return scipy.linalg.sqrtm(A)
    A = arrays.sym(A)
    Q, dg = linalg._diagonalising_frame(A)
    if Q is None:
        raise core.Unsupported("sqrtm: matrix outside the frame library")
    n = A.shape[0]
    D = arrays.zeros((n, n))
    for i in range(n):
        D[i, i] = core.ssqrt(core.SReal.lift(dg[i]))
    return Q @ D @ Q.T


def patches():
    import skmatter.utils._pcovr_utils as U

    _REAL["check_lr_fit"] = U.check_lr_fit
    common = {"linalg": _ScipyLinalg, "svds": stub_svds, "randomized_svd": stub_randomized_svd, "svd_flip": stub_svd_flip,
              "check_lr_fit": stub_check_lr_fit, "MatrixSqrt": stub_sqrtm}
    return {"skmatter.decomposition._pcovr": dict(common),
            "skmatter.utils._pcovr_utils": {"randomized_svd": stub_randomized_svd}}


# ------------------------------------------------------------------ family
def make_family(c, cfg):
    """X = U diag(s) V^T (n x m), Yhat-part = U[:, :p] diag(g) (+ optional remainder along a left vector orthogonal to U).
    Frames concrete (library), spectra s, g and remainder symbolic."""
    n, m, p = cfg["n"], cfg["m"], cfg["p"]
    fam = cfg["family"]
    r = fam.get("r", min(m, n - 1 if n == 4 else n))
    QL, cols = frames.left_frame_cols(n, r, fam.get("U"))
    V = linalg.frame(m, fam["V"])
    linalg.HINTS[:] = [V, QL]
    s = []
    for i in range(r):
        if fam.get("rankdef") and i == r - 1:
            s.append(c.sym(f"s_{i}", nonneg=True))
        else:
            s.append(c.sym(f"s_{i}", positive=True))
    g = [c.sym(f"g_{i}") for i in range(p)]
    U = arrays.exact(frames._cols(QL, cols))
    Va = arrays.exact(V)
    S = arrays.zeros((r, m))
    for i in range(r):
        S[i, i] = s[i]
    X = U @ S @ Va.T
    G = arrays.zeros((r, p))
    for i in range(min(r, p)):
        G[i, i] = g[i]
    Yin = U @ G  # part of Y inside the span of X's left singular vectors
    Y = Yin
    rem = None
    if fam.get("remainder"):
        # a left frame vector orthogonal to U (and to the ones vector when n = 4)
        free = [j for j in range(n) if j not in cols and not (n == 4 and j == 0)]
        if free:
            rem = [c.sym(f"q_{j}") for j in range(p)]
            h = arrays.exact([[QL[i][free[0]]] for i in range(n)])
            Y = Yin + h @ arrays.array([rem], dtype=object)
    return {"X": X, "Y": Y, "Yin": Yin, "U": U, "V": Va, "s": s, "g": g, "r": r, "rem": rem, "QL": arrays.exact(QL), "cols": cols}


def float_family(cfg, values):
    n, m, p = cfg["n"], cfg["m"], cfg["p"]
    fam = cfg["family"]
    r = fam.get("r", min(m, n - 1 if n == 4 else n))
    QL, cols = frames.left_frame_cols(n, r, fam.get("U"))
    V = np.array(linalg.frame(m, fam["V"]), dtype=float)
    U = np.array(frames._cols(QL, cols), dtype=float)
    S = np.zeros((r, m))
    for i in range(r):
        S[i, i] = float(values.get(f"s_{i}", 1.0 + 0.7 * (r - i)))
    X = U @ S @ V.T
    G = np.zeros((r, p))
    for i in range(min(r, p)):
        G[i, i] = float(values.get(f"g_{i}", 0.8 - 1.3 * i))
    Y = U @ G
    Yin = Y.copy()
    if fam.get("remainder"):
        free = [j for j in range(n) if j not in cols and not (n == 4 and j == 0)]
        if free:
            h = np.array([[float(QL[i][free[0]])] for i in range(n)])
            Y = Y + h @ np.array([[float(values.get(f"q_{j}", 0.5 + j)) for j in range(p)]])
    return X, Y, Yin


def regressor_for(cfg, sym, alpha=None):
    """regressor argument for PCovR: symbolic side uses the closed-form stand-in (stub_check_lr_fit), float side real sklearn"""
    kind = cfg["reg"]
    if kind == "precomputed":
        return "precomputed"
    from sklearn.linear_model import LinearRegression, Ridge

    if kind == "ols":
        return LinearRegression(fit_intercept=False)
    a = alpha if alpha is not None else 0.5
    rg = Ridge(alpha=1.0, fit_intercept=False, tol=1e-12)
    rg.alpha = a  # symbolic alpha is only read by the closed-form stand-in
    return rg


def mixing_symbol(c, closed=True):
    a = c.sym("mix", nonneg=True)
    c.assume(a <= 1)
    return a
