"""C02 - FPS and PCov-FPS pick a farthest candidate each step and report true distances."""
from __future__ import annotations

import sys, os

sys.path.insert(0, os.path.dirname(os.path.dirname(os.path.abspath(__file__))))

import numpy as np

from symx import arrays, core, runner, linalg
from symx.core import Formula, f_and, f_or, TRUE, FALSE
from checks import sel_common as sc
from checks import frames

INF = float("inf")


class C02(runner.Check):
    pid = "C02"
    modules = sc.SEL_MODULES
    linalg_stubs = linalg.LINALG_STUBS
    engine_opts = dict(pool=48, max_paths=6000, feas_ms=1500, t3_ms=10000, t2_ms=10000, wall_s=1500)
    bounds_text = ("quick: FPS sample n<=5 points in R^2..R^3 / feature <=4 columns, <=4 selections, initialise int / list / 'random'; "
                   "PCov-FPS sample 4x2 (+1 target), mixing symbolic in [0,1); PCov-FPS feature on the factor family "
                   "(X = U diag(s) V^T, frames from a finite rational library, spectra/targets/mixing symbolic). thorough: n<=5, m<=3, <=4 picks. "
                   "All entries exact reals; every path of the real code explored.")
    stubs = ["sklearn validators (aliasing contract, float64 C-order)", "np.minimum -> ite atoms", "np.argmax -> fork on result index with first-index tie rule",
             "np.linalg.eigh -> verified-frame decomposition (PCov-FPS feature direction only)"]
    assumptions = ["exact real arithmetic (rounding-only effects outside the claim)", "0 <= mixing < 1",
                   "'random' initialisation uses the real RandomState draw (concrete)"]
    outside = ["more than 5 candidates", "float rounding / near-ties", "PCov-FPS feature direction for X whose right singular frame is outside the library"]

    def configs(self, tier):
        cf = []

        def add(cls, d, n, m, k, init, p=0, cost=1, **extra):
            params = {"n_to_select": k, "initialize": init}
            c = {"cls": cls, "dir": d, "n": n, "m": m, "p": p, "params": params, "_cost": cost}
            c.update(extra)
            cf.append(c)

        # FPS
        add("FPS", "sample", 4, 2, 3, 0, cost=2)
        add("FPS", "sample", 4, 2, 4, 2, cost=3)
        add("FPS", "sample", 4, 2, 3, [1, 3], cost=1)
        add("FPS", "sample", 4, 2, 3, "random", cost=2)
        add("FPS", "feature", 2, 4, 3, 0, cost=2)
        add("FPS", "feature", 2, 4, 4, [3, 0], cost=2)
        add("FPS", "sample", 3, 3, 3, 1, cost=1)
        add("FPS", "sample", 5, 2, 3, 0, cost=5)
        add("PCovFPS", "sample", 4, 2, 3, 0, p=1, cost=6)
        add("PCovFPS", "sample", 3, 2, 3, 1, p=1, cost=2)
        add("PCovFPS", "sample", 3, 2, 3, 0, p=1, cost=3, prefit=True)  # same object fitted before on other data / mixing
        add("FPS", "sample", 4, 2, 3, 2, cost=3, prefit=True)
        for fr in frames.right_frames(2)[:2]:
            add("PCovFPS", "feature", 4, 2, 2, 0, p=1, cost=3, family={"V": fr["name"]})
        if tier == "thorough":
            add("FPS", "sample", 5, 2, 4, 0, cost=20)
            add("FPS", "sample", 5, 3, 3, 4, cost=10)
            add("FPS", "sample", 4, 3, 4, 0, cost=8)
            add("FPS", "feature", 3, 4, 4, 1, cost=8)
            add("FPS", "feature", 3, 5, 3, 0, cost=10)
            add("FPS", "sample", 5, 2, 4, [0, 4], cost=10)
            add("PCovFPS", "sample", 4, 2, 4, 3, p=1, cost=20)
            add("PCovFPS", "sample", 4, 3, 3, 0, p=1, cost=15)
            add("PCovFPS", "sample", 5, 2, 3, 0, p=1, cost=30)
            for fr in frames.right_frames(2):
                add("PCovFPS", "feature", 4, 2, 2, 1, p=1, cost=3, family={"V": fr["name"]})
            for fr in frames.right_frames(3)[:6]:
                add("PCovFPS", "feature", 4, 3, 3, 0, p=1, cost=10, family={"V": fr["name"]})
        return cf

    # ------------------------------------------------------------------ symbolic
    def harness(self, c, cfg, P):
        if cfg.get("family"):
            X, y, fam = frames.family_Xy(cfg)
        else:
            X, y = sc.sym_inputs(cfg)
        over = {}
        mixing = None
        if cfg["cls"] == "PCovFPS":
            mixing = c.sym("mix")
            c.assume(mixing >= 0)
            c.assume(mixing < 1)
            over["mixing"] = mixing
        sel = sc.make_selector(cfg, **over)
        if cfg.get("prefit"):
            # history: the same estimator object was fitted before on other data (and another mixing); nothing may leak
            n_, m_ = X.shape
            Xp = arrays.exact([[(3 * i + 2 * j) % 5 - 2 for j in range(m_)] for i in range(n_)])
            yp = arrays.exact([[i - 1] for i in range(n_)]) if y is not None else None
            if mixing is not None:
                sel.mixing = c.const(core.Fraction(1, 4))
            with sc.quiet():
                sel.fit(Xp, yp)
            if mixing is not None:
                sel.mixing = mixing
        with sc.quiet():
            sel.fit(X, y)
        idx = [int(i) for i in sel.selected_idx_]
        init = cfg["params"]["initialize"]
        n_init = len(init) if isinstance(init, list) else 1
        d = cfg["dir"]
        ncand = X.shape[0] if d == "sample" else X.shape[1]
        # independent distance oracle (terms)
        if cfg["cls"] == "FPS":
            V = sc.items(X, d)
            D = [[sc.sqdist(V[i], V[j]) if i != j else c.const(0) for j in range(ncand)] for i in range(ncand)]
        else:
            if d == "sample":
                K = mixing * (X @ X.T) + (1 - mixing) * (y @ y.T)
            else:
                K = frames.oracle_pcovr_covariance(fam, mixing)
            D = [[K[i, i] - 2 * K[i, j] + K[j, j] for j in range(ncand)] for i in range(ncand)]
        # clause: initial picks
        if isinstance(init, list):
            P.require(Formula.const(idx[:n_init] == init), "initial-picks")
        elif init == "random":
            from sklearn.utils import check_random_state

            P.require(Formula.const(idx[0] == check_random_state(sel.random_state).randint(ncand)), "initial-picks")
        else:
            P.require(Formula.const(idx[0] == init), "initial-picks")
        has = sel.hausdorff_at_select_
        for t in range(n_init, len(idx)):
            prev = idx[:t]
            p = idx[t]
            others = [j for j in range(ncand) if j not in prev and j != p]
            # farthest: min_s D[p][s] >= min_s D[j][s] for every unselected j
            fs = [sc.min_ge_min([D[p][s] for s in prev], [D[j][s] for s in prev]) for j in others]
            P.require_all(fs, "pick-is-farthest", {"step": t, "pick": p})
            # reported distance equals the true minimum
            P.require(sc.is_min_of(has[p], [D[p][s] for s in prev]), "reported-select-distance", {"step": t})
        # monotone over greedy picks
        mono = []
        for t in range(n_init, len(idx) - 1):
            mono.append(sc.ge(has[idx[t]], has[idx[t + 1]]))
        P.require_all(mono, "select-distances-nonincreasing")
        # final table
        tab = sel.hausdorff_
        fs = []
        for j in range(ncand):
            fs.append(sc.is_min_of(tab[j], [D[j][s] for s in idx]))
        P.require_all(fs, "distance-table")
        gsd = sel.get_select_distance()
        P.require_all(sc.arr_eq(gsd, has[idx]), "get_select_distance-view")
        # sample FPS on X == feature FPS on X^T
        if cfg["cls"] == "FPS" and not cfg.get("family"):
            cfg2 = dict(cfg)
            cfg2["dir"] = "feature" if d == "sample" else "sample"
            sel2 = sc.make_selector(cfg2)
            with sc.quiet():
                sel2.fit(X.T.copy())
            idx2 = [int(i) for i in sel2.selected_idx_]
            P.require(Formula.const(idx2 == idx), "transpose-equivalence", {"idx": idx, "idx_T": idx2})
        return {"selected": idx}

    # ------------------------------------------------------------------ float replay
    def concrete(self, cfg, values):
        if cfg.get("family"):
            X, y = frames.family_Xy_float(cfg, values)
        else:
            X, y = sc.float_inputs(cfg, values)
        over = {}
        mixing = None
        if cfg["cls"] == "PCovFPS":
            mixing = float(values.get("mix", 0.5))
            over["mixing"] = mixing
        sel = sc.make_selector(cfg, **over)
        if cfg.get("prefit"):
            n_, m_ = X.shape
            Xp = np.array([[(3 * i + 2 * j) % 5 - 2 for j in range(m_)] for i in range(n_)], dtype=float)
            yp = np.array([[i - 1] for i in range(n_)], dtype=float) if y is not None else None
            if mixing is not None:
                sel.mixing = 0.25
            with sc.quiet():
                sel.fit(Xp, yp)
            if mixing is not None:
                sel.mixing = mixing
        with sc.quiet():
            sel.fit(X, y)
        idx = [int(i) for i in sel.selected_idx_]
        viol = []
        D = sc.true_dist_matrix(cfg, X, y, mixing)
        tol = sc.tol_of(D)
        init = cfg["params"]["initialize"]
        n_init = len(init) if isinstance(init, list) else 1
        if isinstance(init, list) and idx[:n_init] != init:
            viol.append(("initial-picks", idx))
        if isinstance(init, int) and idx[0] != init:
            viol.append(("initial-picks", idx))
        has = sel.hausdorff_at_select_
        ncand = D.shape[0]
        rep = []
        for t in range(n_init, len(idx)):
            prev = idx[:t]
            true_min = D[:, prev].min(axis=1)
            if true_min[idx[t]] < true_min.max() - tol:
                viol.append(("pick-is-farthest", {"step": t, "pick": idx[t], "dist": float(true_min[idx[t]]), "best": float(true_min.max())}))
            if abs(has[idx[t]] - true_min[idx[t]]) > tol:
                viol.append(("reported-select-distance", {"step": t, "reported": float(has[idx[t]]), "true": float(true_min[idx[t]])}))
            rep.append(has[idx[t]])
        for a, b in zip(rep, rep[1:]):
            if b > a + tol:
                viol.append(("select-distances-nonincreasing", [float(a), float(b)]))
        tm = D[:, idx].min(axis=1)
        if np.max(np.abs(sel.hausdorff_ - tm)) > tol:
            viol.append(("distance-table", {"got": sel.hausdorff_.tolist(), "true": tm.tolist()}))
        if cfg["cls"] == "FPS":
            cfg2 = dict(cfg)
            cfg2["dir"] = "feature" if cfg["dir"] == "sample" else "sample"
            sel2 = sc.make_selector(cfg2)
            with sc.quiet():
                sel2.fit(X.T.copy())
            idx2 = [int(i) for i in sel2.selected_idx_]
            if idx2 != idx:
                # tie-aware: accept if each of idx2's picks is also farthest
                ok = True
                for t in range(n_init, len(idx2)):
                    tmn = D[:, idx2[:t]].min(axis=1)
                    if tmn[idx2[t]] < tmn.max() - tol:
                        ok = False
                if not ok or True:
                    viol.append(("transpose-equivalence", {"idx": idx, "idx_T": idx2}))
        if len(set(idx)) < len(idx) and viol:
            # structural tag: the selection re-selected an index (exhausted distinct candidates, C01 finding)
            viol = [("reselected-index", {"selected": idx})] + viol
        return {"selected": idx}, viol

    def signature(self, cfg, clause, values, viol):
        names = [v[0] for v in viol]
        tag = "reselected-index" if "reselected-index" in names else "distinct-picks"
        rest = sorted(set(n for n in names if n != "reselected-index"))
        return f"C02/{tag}/{cfg['cls']}/{cfg['dir']}/{'+'.join(rest)}"


if __name__ == "__main__":
    sys.exit(runner.main(C02()))
