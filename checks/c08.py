"""C08 - greedy selection is history independent (prefix, restart, warm start)."""
from __future__ import annotations

import itertools
import os
import sys

sys.path.insert(0, os.path.dirname(os.path.dirname(os.path.abspath(__file__))))

import numpy as np

from symx import arrays, core, runner, linalg
from symx.core import Formula, f_and, f_or, TRUE, FALSE
from checks import sel_common as sc
from checks import cur_stubs

F_ = sc._F


def schedules(n_final, start=1):
    """all strictly increasing schedules n1 < ... < n_final with at least one warm step"""
    out = []
    inner = list(range(start, n_final))
    for r in range(1, len(inner) + 1):
        for sub in itertools.combinations(inner, r):
            out.append(list(sub) + [n_final])
    return out


def state_of(sel, cfg):
    """the observable learned state compared between histories"""
    st = {"idx": [int(i) for i in sel.selected_idx_], "n_selected_": int(sel.n_selected_), "X_selected_": sel.X_selected_}
    if hasattr(sel, "y_selected_"):
        st["y_selected_"] = sel.y_selected_
    for a in ("hausdorff_", "hausdorff_at_select_", "pi_", "X_current_", "y_current_"):
        if hasattr(sel, a) and getattr(sel, a) is not None:
            st[a] = getattr(sel, a)
    return st


def eq_state(A, B, skip=()):
    """list of (name, formulas)"""
    out = []
    out.append(("selected_idx_", [Formula.const(A["idx"] == B["idx"] and A["n_selected_"] == B["n_selected_"])]))
    for k in A:
        if k in ("idx", "n_selected_") or k in skip:
            continue
        if k not in B:
            out.append((k, [FALSE]))
            continue
        out.append((k, sc.arr_eq(np.asarray(A[k], dtype=object), np.asarray(B[k], dtype=object))))
    return out


class C08(runner.Check):
    pid = "C08"
    modules = sc.SEL_MODULES
    linalg_stubs = linalg.LINALG_STUBS
    engine_opts = dict(pool=48, max_paths=8000, feas_ms=1200, t3_ms=8000, t2_ms=8000, wall_s=2000)
    expected_events = ("div0", "singular")
    bounds_text = ("FPS (both directions), PCov-FPS (sample), VoronoiFPS, CUR (both directions, recompute_every in {0,1}), PCov-CUR (sample): cold fit with n<=4 selections "
                   "versus EVERY increasing schedule of warm-started fits reaching n (exhaustive), the prefix property, FPS initialised with the selected prefix, and "
                   "rejection of warm_start on a never-fitted selector; data fully symbolic (<=5 candidates); CUR family scores uninterpreted with congruence.")
    stubs = ["sklearn validators", "CUR family: svds/eigsh/eigh uninterpreted with contract (equal arguments give equal outputs)", "np.minimum -> ite atoms", "np.argmax -> fork"]
    assumptions = ["exact real arithmetic", "CUR family: decomposed matrices nonzero and positive pick scores (as C01)", "CUR tolerance = 0 in symbolic runs"]
    outside = ["more than 4 selections", "refresh intervals > 1 (deliberately re-scored at a restart; held to C01 only)", "interleaved unreached thresholds"]

    def configs(self, tier):
        cf = []

        def add(cls, d, n, m, k, init=0, p=0, cost=1, **params):
            pr = {"n_to_select": k}
            if cls in ("FPS", "PCovFPS", "VoronoiFPS"):
                pr["initialize"] = init
            pr.update(params)
            cfgd = {"cls": cls, "dir": d, "n": n, "m": m, "p": p, "params": pr, "k": k, "_cost": cost}
            if cls == "VoronoiFPS":
                cfgd["_engine"] = {"confirm_feas": False}  # path feasibility by the linear abstraction only (obligations still exact)
            cf.append(cfgd)

        add("FPS", "sample", 4, 2, 3, init=2, cost=4)
        add("FPS", "feature", 2, 4, 3, init=3, cost=4)
        add("FPS", "sample", 4, 2, 3, init=1, p=1, cost=4)
        add("PCovFPS", "sample", 4, 2, 3, init=2, p=1, cost=10)
        add("VoronoiFPS", "sample", 4, 2, 3, init=2, cost=10, full_fraction=0.5)
        add("CUR", "feature", 3, 3, 2, cost=4)
        add("CUR", "feature", 3, 3, 3, recompute_every=0, cost=3)
        add("CUR", "sample", 3, 3, 2, cost=4)
        add("CUR", "sample", 3, 3, 3, recompute_every=0, cost=3)
        add("PCovCUR", "sample", 3, 2, 2, p=1, cost=5)
        add("PCovCUR", "sample", 3, 2, 3, p=1, recompute_every=0, cost=4)
        if tier == "thorough":
            add("FPS", "sample", 4, 2, 4, init=1, cost=30)
            add("FPS", "sample", 5, 2, 4, init=3, cost=40)
            add("FPS", "feature", 3, 5, 4, init=4, cost=40)
            add("PCovFPS", "sample", 4, 2, 4, init=1, p=1, cost=40)
            add("VoronoiFPS", "sample", 4, 2, 4, init=3, cost=40, full_fraction=0.25)
            add("CUR", "feature", 3, 4, 3, cost=40)
            add("CUR", "sample", 4, 3, 3, recompute_every=0, cost=10)
        return cf

    def patches(self, cfg):
        return cur_stubs.patches()

    # ------------------------------------------------------------------
    def _new(self, cfg, over, **kw):
        o = dict(over)
        o.update(kw)
        return sc.record_scores(sc.make_selector(cfg, **o))

    def harness(self, c, cfg, P):
        cur_stubs.reset()
        X, y = sc.sym_inputs(cfg)
        over = {}
        if cfg["cls"] in ("PCovFPS", "PCovCUR"):
            mixing = c.sym("mix")
            c.assume(mixing >= 0)
            c.assume(mixing < 1)
            over["mixing"] = mixing
        cur = cfg["cls"] in ("CUR", "PCovCUR")
        if cur:
            over["tolerance"] = 0
        sels = []
        if cur:
            P.hyp = lambda: f_and(*(list(cur_stubs.NONZERO) + [F_(s > 0) for sel in sels for (_, s, _) in sel._symx_pick_scores]))
        k = cfg["k"]
        cold = self._new(cfg, over)
        sels.append(cold)
        with sc.quiet():
            cold.fit(X, y)
        S0 = state_of(cold, cfg)
        idx = S0["idx"]
        n_init = 1
        # 1. never-fitted selector rejects warm_start
        fresh = self._new(cfg, over)
        rejected = False
        try:
            with sc.quiet():
                fresh.fit(X, y, warm_start=True)
        except ValueError:
            rejected = True
        P.require(Formula.const(rejected), "warm_start-on-unfitted-selector-rejected")
        # 2. every increasing schedule of warm-started fits reproduces the cold fit
        for sched in schedules(k):
            sel = self._new(cfg, over, n_to_select=sched[0])
            sels.append(sel)
            with sc.quiet():
                sel.fit(X, y)
                for nk in sched[1:]:
                    sel.n_to_select = nk
                    sel.fit(X, y, warm_start=True)
            S = state_of(sel, cfg)
            for name, fs in eq_state(S0, S):
                P.require_all(fs, f"warm-chain==cold:{name}", {"schedule": sched, "cold": idx, "warm": S["idx"]})
        # 3. prefix property: k' < k picks are the first k' of the cold fit
        for kk in range(1, k):
            sel = self._new(cfg, over, n_to_select=kk)
            sels.append(sel)
            with sc.quiet():
                sel.fit(X, y)
            P.require(Formula.const([int(i) for i in sel.selected_idx_] == idx[:kk]), "prefix-property", {"k": kk, "cold": idx, "short": [int(i) for i in sel.selected_idx_]})
        # 4. FPS initialised with the already selected prefix
        if cfg["cls"] == "FPS":
            for kk in range(2, k):
                sel = self._new(cfg, over, initialize=list(idx[:kk]))
                sels.append(sel)
                with sc.quiet():
                    sel.fit(X, y)
                S = state_of(sel, cfg)
                for name, fs in eq_state(S0, S):
                    P.require_all(fs, f"prefix-initialised-FPS==cold:{name}", {"prefix": idx[:kk], "cold": idx, "restart": S["idx"]})
        return {"selected": idx}

    # ------------------------------------------------------------------ float replay
    def concrete(self, cfg, values):
        X, y = sc.float_inputs(cfg, values)
        over = {}
        if cfg["cls"] in ("PCovFPS", "PCovCUR"):
            over["mixing"] = float(values.get("mix", 0.5))
        k = cfg["k"]
        viol = []

        def st(sel):
            d = {"idx": [int(i) for i in sel.selected_idx_], "X_selected_": np.array(sel.X_selected_)}
            for a in ("y_selected_", "hausdorff_", "hausdorff_at_select_", "pi_", "X_current_"):
                if hasattr(sel, a) and getattr(sel, a) is not None:
                    d[a] = np.array(getattr(sel, a))
            return d

        def differs(A, B):
            out = []
            if A["idx"] != B["idx"]:
                out.append("selected_idx_")
            for kk in A:
                if kk == "idx":
                    continue
                if kk not in B or A[kk].shape != B[kk].shape or not np.allclose(A[kk], B[kk], atol=1e-8, equal_nan=True):
                    out.append(kk)
            return out

        with sc.quiet():
            cold = sc.make_selector(cfg, **over).fit(X, y)
            S0 = st(cold)
            try:
                sc.make_selector(cfg, **over).fit(X, y, warm_start=True)
                viol.append(("warm_start-on-unfitted-selector-rejected", None))
            except ValueError:
                pass
            for sched in schedules(k):
                sel = sc.make_selector(cfg, **dict(over, n_to_select=sched[0])).fit(X, y)
                for nk in sched[1:]:
                    sel.n_to_select = nk
                    sel.fit(X, y, warm_start=True)
                d = differs(S0, st(sel))
                if d:
                    viol.append(("warm-chain==cold:" + "+".join(d), {"schedule": sched, "cold": S0["idx"], "warm": st(sel)["idx"]}))
            for kk in range(1, k):
                sel = sc.make_selector(cfg, **dict(over, n_to_select=kk)).fit(X, y)
                if [int(i) for i in sel.selected_idx_] != S0["idx"][:kk]:
                    viol.append(("prefix-property", {"k": kk}))
            if cfg["cls"] == "FPS":
                for kk in range(2, k):
                    sel = sc.make_selector(cfg, **dict(over, initialize=list(S0["idx"][:kk]))).fit(X, y)
                    d = differs(S0, st(sel))
                    if d:
                        viol.append(("prefix-initialised-FPS==cold:" + "+".join(d), {"prefix": S0["idx"][:kk]}))
        if viol and len(set(S0["idx"])) < len(S0["idx"]):
            viol = [("tags:reselected-index", None)] + viol
        return {"selected": S0["idx"]}, viol

    def same_outcome(self, cfg, sym_out, real_out):
        if cfg["cls"] in ("CUR", "PCovCUR"):
            return True
        return runner._jsonable(sym_out) == runner._jsonable(real_out)

    def signature(self, cfg, clause, values, viol):
        names = sorted(set(v[0].split(":")[0] + (":" + v[0].split(":")[1] if ":" in v[0] else "") for v in viol if not v[0].startswith("tags:")))
        tags = [v[0][5:] for v in viol if v[0].startswith("tags:")]
        return f"C08/{tags[0] if tags else 'distinct-picks'}/{cfg['cls']}/{cfg['dir']}/{'+'.join(names)[:200]}"


if __name__ == "__main__":
    sys.exit(runner.main(C08()))
