"""Factor-family inputs: X = U diag(s) V^T with concrete rational orthogonal frames (from
symx.linalg.library) and symbolic spectra; Y free or built from the same left frame."""
from __future__ import annotations

from fractions import Fraction as Fr

import numpy as np

from symx import arrays, core, linalg
from symx.core import Formula


def right_frames(m):
    return [{"name": nm} for nm, _ in linalg.library(m)]


def left_frame_cols(n, r, name=None):
    """r orthonormal columns orthogonal to the ones vector (centred data) for n = 4 via the
    Hadamard frame; for other n: columns of a library frame (data then not centred)."""
    if n == 4:
        Q = linalg.frame(4, name or "H4")
        return Q, [1, 2, 3][:r]
    Q = linalg.frame(n, name or "I")
    return Q, list(range(r))


def _cols(Q, cols):
    return [[Q[i][j] for j in cols] for i in range(len(Q))]


def family_Xy(cfg, free_y=True):
    c = core.ctx()
    n, m, p = cfg["n"], cfg["m"], cfg.get("p", 0)
    fam = cfg["family"]
    r = fam.get("r", min(m, n - 1 if n == 4 else n))
    QL, cols = left_frame_cols(n, r, fam.get("U"))
    V = linalg.frame(m, fam["V"])
    linalg.HINTS[:] = [V, QL]
    s = [c.sym(f"s_{i}") for i in range(r)]
    for si in s:
        if fam.get("rankdef"):
            c.assume(si >= 0)
        else:
            c.assume(si > 0)
    U = arrays.exact(_cols(QL, cols))  # n x r
    Va = arrays.exact(V)  # m x m
    S = arrays.zeros((r, m))
    for i in range(r):
        S[i, i] = s[i]
    X = U @ S @ Va.T
    y = arrays.symbols("y", (n, p)) if p else None
    info = {"U": U, "V": Va, "s": s, "r": r, "X": X, "y": y, "QL": arrays.exact(QL)}
    return X, y, info


def family_Xy_float(cfg, values):
    n, m, p = cfg["n"], cfg["m"], cfg.get("p", 0)
    fam = cfg["family"]
    r = fam.get("r", min(m, n - 1 if n == 4 else n))
    QL, cols = left_frame_cols(n, r, fam.get("U"))
    V = np.array(linalg.frame(m, fam["V"]), dtype=float)
    U = np.array(_cols(QL, cols), dtype=float)
    S = np.zeros((r, m))
    for i in range(r):
        S[i, i] = float(values.get(f"s_{i}", 1))
    X = U @ S @ V.T
    y = None
    if p:
        y = np.array([[float(values.get(f"y_{i}_{j}", 0)) for j in range(p)] for i in range(n)])
    return X, y


def oracle_pcovr_covariance(info, mixing, rcond="1e-12"):
    """documented C~ = a X^T X + (1-a) C^-1/2 X^T Y Y^T X C^-1/2 written from the factors:
    C^-1/2 X^T = V diag(keep) U^T with keep_i = [s_i^2 > rcond]"""
    c = core.ctx()
    U, V, s, r, y = info["U"], info["V"], info["s"], info["r"], info["y"]
    m = V.shape[0]
    rc = c.const(Fr(rcond))
    keep = []
    for i in range(r):
        k = (s[i] * s[i]) > rc
        keep.append(bool(k))
    D2 = arrays.zeros((m, m))
    Kp = arrays.zeros((m, r))
    for i in range(r):
        D2[i, i] = s[i] * s[i]
        if keep[i]:
            Kp[i, i] = c.const(1)
    W = V @ Kp @ U.T @ y
    return mixing * (V @ D2 @ V.T) + (1 - mixing) * (W @ W.T)
