"""C03 - PCovR's latent space does not depend on the computational route."""
from __future__ import annotations

import os
import sys

sys.path.insert(0, os.path.dirname(os.path.dirname(os.path.abspath(__file__))))

import numpy as np

from symx import arrays, core, runner, linalg
from symx.core import Formula, f_and, f_or, TRUE, FALSE
from checks import sel_common as sc
from checks import pcovr_common as pc

F_ = sc._F


def cols_equal_up_to_sign(A, B):
    """list of formulas: every column of A equals +- the same column of B"""
    A, B = np.asarray(A, dtype=object), np.asarray(B, dtype=object)
    if A.shape != B.shape:
        return [FALSE]
    out = []
    for j in range(A.shape[1]):
        out.append(f_or(f_and(*sc.arr_eq(A[:, j], B[:, j])), f_and(*sc.arr_eq(A[:, j], -B[:, j]))))
    return out


class C03(runner.Check):
    pid = "C03"
    modules = pc.MODULES
    linalg_stubs = linalg.LINALG_STUBS
    engine_opts = dict(pool=48, max_paths=3000, feas_ms=1500, t3_ms=10000, t2_ms=10000, wall_s=1500)
    expected_events = ("singular", "sqrt-neg", "div0")
    bounds_text = ("factor family X = U diag(s) V^T (4x2 tall; 4x3 and rank-deficient members in thorough / one quick config), Y = U diag(g) + remainder orthogonal to U, "
                   "spectra / targets / remainder / mixing in [0,1] / ridge strength symbolic; k in 1..min(n,m); regressors precomputed (with and without W), OLS and Ridge "
                   "stand-ins; feature vs sample space; svd_solver full vs arpack vs randomized (same exact decomposition behind all three: the glue is checked).")
    stubs = ["np.linalg.eigh / scipy.linalg.svd / scipy svds / randomized_svd -> verified-frame decompositions (svds returns ascending order like ARPACK)",
             "sklearn Ridge / LinearRegression -> normal equations", "svd_flip -> identity"]
    assumptions = ["exact real arithmetic", "singular frames of X inside the finite rational library", "retained eigenvalues > tol", "simple spectrum of the modified matrix (no eigenvalue ties: otherwise component vectors are not unique)",
                   "squared singular values of X either exactly 0 or > 1e-10 (clear of the rcond threshold 1e-12)"]
    outside = ["frames outside the library", "convergence / sketching error of ARPACK and randomized SVD", "wide X (n < m) in the quick tier"]

    def configs(self, tier):
        cf = []

        def add(k, p, V, reg, mode="spaces", n=4, m=2, cost=2, **fam):
            f = {"V": V}
            f.update(fam)
            cf.append({"n": n, "m": m, "p": p, "k": k, "reg": reg, "mode": mode, "family": f, "_cost": cost})

        add(1, 2, "R35", "precomputed")
        add(2, 2, "R35", "precomputed", cost=4)
        add(2, 1, "R513", "ridge", cost=6, remainder=True)
        add(1, 2, "I", "ols", remainder=True)
        add(2, 2, "R35", "ols", cost=6, rankdef=True)
        add(1, 2, "R35", "precomputed", mode="solvers", cost=3)
        add(1, 1, "R513", "ridge", mode="solvers", cost=3)
        add(2, 2, "R35", "precomputed", mode="spectrum", cost=3)
        add(2, 1, "I", "precomputed", mode="solvers", m=3, cost=20)  # 4x3: n_components=2 with the truncated solvers (reversal of >= 2 ARPACK vectors)
        if tier == "thorough":
            for V in ("I", "R35", "R513", "F35", "R35R513"):
                add(2, 2, V, "ridge", cost=8, remainder=True)
                add(1, 2, V, "precomputed", mode="solvers", cost=3)
            add(2, 3, "H122", "precomputed", m=3, cost=30)
            add(3, 2, "R35_01", "ols", m=3, cost=40, remainder=True)
            add(2, 2, "H122R35_01", "ridge", m=3, mode="solvers", cost=30)
            add(2, 2, "R513", "ridge", cost=8, rankdef=True, remainder=True)
        return cf

    def patches(self, cfg):
        return pc.patches()

    def _fit(self, cfg, X, Y, a, k, alpha, space, solver="full", sym=True, W=None):
        from skmatter.decomposition import PCovR

        est = PCovR(mixing=a, n_components=k, space=space, svd_solver=solver, regressor=pc.regressor_for(cfg, sym, alpha), tol=1e-12, random_state=0)
        if W is not None:
            return est.fit(X, Y, W)
        return est.fit(X, Y)

    def _assume_retained(self, c, cfg, est, k, X=None, Y=None, a=None, alpha=None):
        """preconditions under which component vectors are determined: retained eigenvalues exceed tol, and the whole
        spectrum of the modified matrix is simple (no ties), so that the retained directions are unique up to sign"""
        for i in range(k):
            c.assume(est.explained_variance_[i] * (cfg["n"] - 1) > core.Fraction("1e-12"))
        if X is not None:
            full = self._fit(cfg, X, Y, a, min(cfg["n"], cfg["m"]), alpha, "feature")
            ev = full.explained_variance_
            for i in range(len(ev) - 1):
                c.assume(ev[i] > ev[i + 1])

    def harness(self, c, cfg, P):
        fam = pc.make_family(c, cfg)
        for si in fam["s"]:
            # singular values of X are either exactly zero (rank-deficient members) or clear of the rcond threshold
            if not cfg["family"].get("rankdef") or si is not fam["s"][-1]:
                c.assume(si * si > core.Fraction("1e-10"))
            else:
                c.assume(core.f_or(core._as_formula(si == 0), core._as_formula(si * si > core.Fraction("1e-10"))))
        X = fam["X"]
        Y = fam["Yin"] if cfg["reg"] == "precomputed" else fam["Y"]
        a = pc.mixing_symbol(c)
        alpha = c.sym("alpha", positive=True) if cfg["reg"] == "ridge" else None
        k, n = cfg["k"], cfg["n"]
        if cfg["mode"] == "spaces":
            ef = self._fit(cfg, X, Y, a, k, alpha, "feature")
            es = self._fit(cfg, X, Y, a, k, alpha, "sample")
            self._assume_retained(c, cfg, ef, k, X, Y, a, alpha)
            Tf, Ts = ef.transform(X), es.transform(X)
            P.require_all(cols_equal_up_to_sign(Tf, Ts), "latent-coordinates-equal-up-to-sign(feature vs sample)")
            P.require_all(sc.arr_eq(ef.predict(X), es.predict(X)), "predictions-equal(feature vs sample)")
            P.require_all(sc.arr_eq(ef.inverse_transform(Tf), es.inverse_transform(Ts)), "reconstruction-equal(feature vs sample)")
            P.require_all(sc.arr_eq(ef.singular_values_, es.singular_values_), "singular-values-equal(feature vs sample)")
            if cfg["reg"] == "precomputed":
                # explicit W = least-squares weights gives the same as W=None
                Wm = linalg.pinv(X) @ Y
                es2 = self._fit(cfg, X, Y, a, k, alpha, "sample", W=Wm)
                P.require_all(cols_equal_up_to_sign(es2.transform(X), Ts) + sc.arr_eq(es2.predict(X), es.predict(X)), "precomputed-with-W==without-W")
        elif cfg["mode"] == "solvers":
            for space in ("feature", "sample"):
                full = self._fit(cfg, X, Y, a, k, alpha, space, "full")
                self._assume_retained(c, cfg, full, k, X, Y, a, alpha)
                for solver in ("arpack", "randomized"):
                    tr = self._fit(cfg, X, Y, a, k, alpha, space, solver)
                    P.require_all(cols_equal_up_to_sign(tr.transform(X), full.transform(X)), f"{solver}==full:coordinates({space})")
                    P.require_all(sc.arr_eq(tr.singular_values_, full.singular_values_), f"{solver}==full:singular-values({space})")
                    P.require_all(sc.arr_eq(tr.predict(X), full.predict(X)) + sc.arr_eq(tr.inverse_transform(tr.transform(X)), full.inverse_transform(full.transform(X))),
                                  f"{solver}==full:predictions-and-reconstruction({space})")
        else:  # spectrum
            from skmatter.utils import pcovr_covariance, pcovr_kernel

            ef = self._fit(cfg, X, Y, a, k, alpha, "feature")
            Ct = pcovr_covariance(a, X, Y, rcond=1e-12)
            Kt = pcovr_kernel(a, X, Y)
            wc, _ = linalg.eigh(Ct)
            wk, _ = linalg.eigh(Kt)
            # non-zero spectra coincide: K~ has n - m additional zeros (ascending order from the stub)
            extra = len(wk) - len(wc)
            P.require_all([F_(wk[i] == 0) for i in range(extra)] + [F_(wk[extra + i] == wc[i]) for i in range(len(wc))], "modified-covariance-and-Gram-share-nonzero-spectrum")
            sv = ef.singular_values_
            m = len(wc)
            P.require_all([F_(sv[i] * sv[i] == wc[m - 1 - i]) for i in range(k)], "singular_values_^2==eigenvalues-in-decreasing-order")
            P.require_all([F_(ef.explained_variance_[i] * (n - 1) == wc[m - 1 - i]) for i in range(k)], "explained_variance_==eigenvalue/(n-1)")
            P.require_all([F_(sv[i] >= sv[i + 1]) for i in range(k - 1)], "singular-values-decreasing")
        return {"k": k}

    # ------------------------------------------------------------------ float replay
    def concrete(self, cfg, values):
        X, Y, Yin = pc.float_family(cfg, values)
        if cfg["reg"] == "precomputed":
            Y = Yin
        a = float(values.get("mix", 0.5))
        alpha = float(values.get("alpha", 0.5))
        k, n = cfg["k"], cfg["n"]
        viol = []
        tol = 1e-6

        def close(A, B):
            A, B = np.asarray(A, dtype=float), np.asarray(B, dtype=float)
            return A.shape == B.shape and np.allclose(A, B, atol=tol * max(1.0, np.abs(B).max() if B.size else 1.0))

        def sign_close(A, B):
            return A.shape == B.shape and all(close(A[:, j], B[:, j]) or close(A[:, j], -B[:, j]) for j in range(A.shape[1]))

        import warnings

        with warnings.catch_warnings():
            warnings.simplefilter("ignore")
            ef = self._fit(cfg, X, Y, a, k, alpha, "feature", sym=False)
            if np.any(ef.explained_variance_ * (n - 1) <= 1e-9):
                return {"k": k, "degenerate": True}, []
            gap_ok = True
            fullf = self._fit(cfg, X, Y, a, min(cfg["n"], cfg["m"]), alpha, "feature", sym=False)
            evs = fullf.explained_variance_
            if np.any(np.abs(np.diff(evs)) < 1e-7 * max(1.0, evs.max())):
                return {"k": k, "degenerate": True}, []
            sx = np.linalg.svd(X, compute_uv=False)
            if np.any((sx**2 > 0) & (sx**2 <= 1e-9) & (sx > 1e-14)):
                return {"k": k, "degenerate": True}, []
            if cfg["mode"] == "spaces":
                es = self._fit(cfg, X, Y, a, k, alpha, "sample", sym=False)
                Tf, Ts = ef.transform(X), es.transform(X)
                ev = np.sort(np.linalg.eigvalsh(a * X @ X.T + (1 - a) * ef.predict(X) @ ef.predict(X).T if False else es.singular_values_[:, None] * 0 + np.diag(es.singular_values_**2)))
                if k >= 2 and abs(es.singular_values_[0] - es.singular_values_[1]) < 1e-6 * max(1.0, es.singular_values_[0]):
                    gap_ok = False  # degenerate retained eigenvalues: component vectors not unique
                if gap_ok and not sign_close(Tf, Ts):
                    viol.append(("latent-coordinates-equal-up-to-sign(feature vs sample)", float(np.abs(np.abs(Tf) - np.abs(Ts)).max())))
                if not close(ef.predict(X), es.predict(X)):
                    viol.append(("predictions-equal(feature vs sample)", float(np.abs(ef.predict(X) - es.predict(X)).max())))
                if not close(ef.inverse_transform(Tf), es.inverse_transform(Ts)):
                    viol.append(("reconstruction-equal(feature vs sample)", float(np.abs(ef.inverse_transform(Tf) - es.inverse_transform(Ts)).max())))
                if not close(ef.singular_values_, es.singular_values_):
                    viol.append(("singular-values-equal(feature vs sample)", None))
            elif cfg["mode"] == "solvers":
                for space in ("feature", "sample"):
                    full = self._fit(cfg, X, Y, a, k, alpha, space, "full", sym=False)
                    for solver in ("arpack", "randomized"):
                        tr = self._fit(cfg, X, Y, a, k, alpha, space, solver, sym=False)
                        if not sign_close(tr.transform(X), full.transform(X)):
                            viol.append((f"{solver}==full:coordinates({space})", None))
                        if not close(tr.singular_values_, full.singular_values_):
                            viol.append((f"{solver}==full:singular-values({space})", None))
                        if not close(tr.predict(X), full.predict(X)):
                            viol.append((f"{solver}==full:predictions-and-reconstruction({space})", None))
            else:
                from skmatter.utils import pcovr_covariance, pcovr_kernel

                Yh = ef.regressor_.predict(X).reshape(n, -1) if cfg["reg"] != "precomputed" else Y
                wc = np.linalg.eigvalsh(pcovr_covariance(a, X, Y, rcond=1e-12))[::-1]
                wk = np.linalg.eigvalsh(pcovr_kernel(a, X, Y))[::-1]
                if not close(wc, wk[: len(wc)]) or np.abs(wk[len(wc):]).max(initial=0) > tol:
                    viol.append(("modified-covariance-and-Gram-share-nonzero-spectrum", [wc.tolist(), wk.tolist()]))
                if not close(ef.singular_values_**2, wc[:k]):
                    viol.append(("singular_values_^2==eigenvalues-in-decreasing-order", None))
                if not close(ef.explained_variance_ * (n - 1), wc[:k]):
                    viol.append(("explained_variance_==eigenvalue/(n-1)", None))
        return {"k": k}, viol

    def fix_values(self, cfg, new, model):
        for i, k_ in enumerate(sorted(x for x in new if x.startswith("s_"))):
            new[k_] = abs(new[k_]) + 1 + i
        if cfg["family"].get("rankdef"):
            last = sorted(x for x in new if x.startswith("s_"))[-1]
            new[last] = model.get(last, 0) if model.get(last) is not None else 0
        new["mix"] = model.get("mix") if model.get("mix") is not None else core.Fraction(1, 2)
        if "alpha" in model and model["alpha"] is not None:
            new["alpha"] = model["alpha"]
        return new

    def same_outcome(self, cfg, sym_out, real_out):
        return sym_out.get("k") == real_out.get("k")

    def signature(self, cfg, clause, values, viol):
        names = sorted(set(v[0] for v in viol))
        return f"C03/{cfg['mode']}/{cfg['reg']}/{'+'.join(names)[:200]}"


if __name__ == "__main__":
    sys.exit(runner.main(C03()))
