"""C11 - StandardFlexibleScaler standardises w.r.t. the weighted training distribution."""
from __future__ import annotations

import os
import sys

sys.path.insert(0, os.path.dirname(os.path.dirname(os.path.abspath(__file__))))

import numpy as np

from symx import arrays, core, runner, linalg
from symx.core import Formula, f_and, f_or, TRUE, FALSE
from checks import sel_common as sc

F_ = sc._F


def wavg(A, w):
    """independent weighted column average: sum_i w_i a_ij / sum_i w_i (w None: plain mean)"""
    n = A.shape[0]
    if w is None:
        return A.sum(axis=0) / n
    W = w.sum()
    out = arrays.zeros(A.shape[1])
    for j in range(A.shape[1]):
        s = None
        for i in range(n):
            t = w[i] * A[i, j]
            s = t if s is None else s + t
        out[j] = s / W
    return out


class C11(runner.Check):
    pid = "C11"
    modules = ["skmatter.preprocessing._data"]
    linalg_stubs = linalg.LINALG_STUBS
    engine_opts = dict(pool=40, max_paths=4000, feas_ms=1500, t3_ms=10000, t2_ms=10000, wall_s=1200)
    violation_events = ("div0", "sqrt-neg")
    bounds_text = ("X fully symbolic, quick 3x2 (thorough up to 4x3); all 8 with_mean/with_std/column_wise combinations; weights: None, one fully symbolic "
                   "non-negative vector with positive sum (covers zeros, uniform, integer multiplicities), and concrete integer multiplicities vs repeated rows; "
                   "rtol >= 0 and atol > 0 symbolic; new data symbolic (2 rows); shift vector and rescaling factor symbolic.")
    stubs = ["sklearn _validate_data / _check_sample_weight (aliasing contract)", "np.sqrt -> sqrt atoms with square-factor extraction", "abs -> ite atoms"]
    assumptions = ["exact real arithmetic", "atol > 0 (with atol = 0 and rtol = 0 a zero variance is not 'below the tolerance')", "symbolic weights are parametrised with a fixed total (1 or 3): w_0..w_{n-2} >= 0 free, last = total - sum >= 0"]
    outside = ["n > 4 samples, m > 3 features", "float rounding of near-zero variances"]

    def configs(self, tier):
        cf = []
        shapes = [(3, 2)] if tier == "quick" else [(3, 2), (4, 2), (3, 3)]
        for (n, m) in shapes:
            for wm in (True, False):
                for ws in (True, False):
                    for cw in (True, False):
                        for wt in ("none", "sym", "sym3"):
                            if wt == "sym3" and not (tier == "thorough" or (wm and ws)):
                                continue
                            cost = (3 if wt == "sym" else 1) * n * m
                            cf.append({"n": n, "m": m, "with_mean": wm, "with_std": ws, "column_wise": cw, "weights": wt, "mode": "main", "_cost": cost})
        # integer multiplicities == repeated rows (concrete weights, symbolic X)
        for cw in (True, False):
            cf.append({"n": 3, "m": 2, "with_mean": True, "with_std": True, "column_wise": cw, "weights": [2, 0, 1], "mode": "multiplicity", "_cost": 4})
            if tier == "thorough":
                cf.append({"n": 4, "m": 2, "with_mean": True, "with_std": True, "column_wise": cw, "weights": [1, 3, 0, 2], "mode": "multiplicity", "_cost": 8})
                cf.append({"n": 3, "m": 2, "with_mean": False, "with_std": True, "column_wise": cw, "weights": [1, 2, 2], "mode": "multiplicity", "_cost": 4})
        return cf

    # ------------------------------------------------------------------
    def _scaler(self, cfg, **kw):
        from skmatter.preprocessing import StandardFlexibleScaler

        return StandardFlexibleScaler(with_mean=cfg["with_mean"], with_std=cfg["with_std"], column_wise=cfg["column_wise"], **kw)

    def harness(self, c, cfg, P):
        n, m = cfg["n"], cfg["m"]
        X = arrays.symbols("x", (n, m))
        if cfg["mode"] == "multiplicity":
            return self.h_multiplicity(c, cfg, P, X)
        rtol = c.sym("rtol", nonneg=True)
        atol = c.sym("atol", positive=True)
        w = None
        if cfg["weights"] in ("sym", "sym3"):
            # weights are normalised internally, so only their ratios matter: w_0..w_{n-2} >= 0 symbolic and the
            # last one fixed by the total (1, or 3 for the un-normalised variant); zeros and any ratios are covered
            tot = 1 if cfg["weights"] == "sym" else 3
            ws = [c.sym(f"w_{i}", nonneg=True) for i in range(n - 1)]
            last = c.assume_nonneg(tot - sum(ws[1:], ws[0]))
            w = arrays.array(ws + [last], dtype=object)
        sc_ = self._scaler(cfg, rtol=rtol, atol=atol)
        # independent oracle quantities
        mu = wavg(X, w)
        var = wavg((X - mu) ** 2, w)
        absmu = np.array([core.sabs(v) for v in mu], dtype=object)
        if cfg["column_wise"]:
            small = [F_(var[j] < atol + absmu[j] * rtol) for j in range(m)]
            reject_oracle = f_or(*small)
        else:
            am = core.sabs(mu.sum() / m)
            reject_oracle = F_(var.sum() < am * rtol + atol)
        try:
            sc_.fit(X, sample_weight=w)
            rejected = False
        except ValueError:
            rejected = True
        if not cfg["with_std"]:
            P.require(Formula.const(not rejected), "no-rejection-without-scaling")
        else:
            # rejected exactly when the variance is below the tolerance (so no near-zero scale is divided by)
            P.require(reject_oracle if rejected else ~reject_oracle, "rejected-iff-variance-below-tolerance", {"rejected": rejected})
        if rejected:
            return {"rejected": True}
        Z = sc_.transform(X)
        zmu = wavg(Z, w)
        zvar = wavg((Z - zmu) ** 2, w)
        if cfg["with_mean"]:
            P.require_all([F_(zmu[j] == 0) for j in range(m)], "weighted-mean-zero")
        if cfg["with_std"]:
            if cfg["column_wise"]:
                P.require_all([F_(zvar[j] == 1) for j in range(m)], "weighted-variance-one-per-column")
            else:
                P.require(F_(zvar.sum() == 1), "weighted-total-variance-one")
        # new data round trip
        Xn = arrays.symbols("q", (2, m))
        back = sc_.inverse_transform(sc_.transform(Xn))
        P.require_all(sc.arr_eq(back, Xn), "inverse_transform-undoes-transform")
        # flags switch off exactly their operation / sklearn StandardScaler formula
        if cfg["weights"] == "none" and cfg["column_wise"] and cfg["with_mean"] and cfg["with_std"]:
            pm = X.sum(axis=0) / n
            pv = ((X - pm) ** 2).sum(axis=0) / n
            ref = (X - pm) / arrays.sqrt(pv)
            P.require_all(sc.arr_eq(Z, ref), "equals-StandardScaler-formula")
        if not cfg["with_mean"]:
            P.require_all([F_(v == 0) for v in np.asarray(sc_.mean_).reshape(-1)], "mean_-zero-when-centring-off")
        if not cfg["with_std"]:
            P.require(F_(core.SReal.lift(sc_.scale_) == 1) if not isinstance(sc_.scale_, np.ndarray) else FALSE, "scale_-one-when-scaling-off")
        # shift invariance (centring on): fit on X + t
        if cfg["with_mean"]:
            t = arrays.symbols("t", m)
            s2 = self._scaler(cfg, rtol=rtol, atol=atol)
            try:
                s2.fit(X + t, sample_weight=w)
                Z2 = s2.transform(X + t)
                P.require_all(sc.arr_eq(Z2, Z), "shift-invariance")
            except ValueError:
                # both fits must be accepted for the comparison; rejection threshold itself depends on |mean|*rtol
                rj = F_(rtol > 0)
                P.require(rj, "shift-rejection-only-through-rtol")
        # rescaling invariance up to sign (scaling on)
        if cfg["with_std"]:
            k = c.sym("k")
            c.assume(k != 0)
            s3 = self._scaler(cfg, rtol=rtol, atol=atol)
            try:
                s3.fit(X * k, sample_weight=w)
                Z3 = s3.transform(X * k)
                pos = bool(k > 0)
                P.require_all(sc.arr_eq(Z3, Z if pos else -Z) if cfg["with_mean"] or True else [], "rescaling-invariance-up-to-sign")
            except ValueError:
                pass  # the tolerance is absolute: a rescaled copy may legitimately be rejected
        return {"rejected": False}

    def h_multiplicity(self, c, cfg, P, X):
        wts = cfg["weights"]
        n, m = cfg["n"], cfg["m"]
        s1 = self._scaler(cfg)
        s2 = self._scaler(cfg)
        rows = [i for i, k in enumerate(wts) for _ in range(k)]
        Xr = X[rows].copy()
        try:
            s1.fit(X, sample_weight=np.array(wts, dtype=float))
            r1 = False
        except ValueError:
            r1 = True
        try:
            s2.fit(Xr)
            r2 = False
        except ValueError:
            r2 = True
        P.require(Formula.const(r1 == r2), "multiplicity-same-acceptance")
        if r1 or r2:
            return {"rejected": [r1, r2]}
        P.require_all(sc.arr_eq(np.asarray(s1.mean_), np.asarray(s2.mean_)), "integer-weights==repeated-rows:mean_")
        P.require_all(sc.arr_eq(np.asarray(s1.scale_), np.asarray(s2.scale_)), "integer-weights==repeated-rows:scale_")
        Xn = arrays.symbols("q", (2, m))
        P.require_all(sc.arr_eq(s1.transform(Xn), s2.transform(Xn)), "integer-weights==repeated-rows:transform")
        return {"rejected": [r1, r2]}

    # ------------------------------------------------------------------ float replay
    def concrete(self, cfg, values):
        from sklearn.preprocessing import StandardScaler

        n, m = cfg["n"], cfg["m"]
        X = np.array([[float(values.get(f"x_{i}_{j}", 0)) for j in range(m)] for i in range(n)])
        viol = []
        if cfg["mode"] == "multiplicity":
            wts = np.array(cfg["weights"], dtype=float)
            rows = [i for i, k in enumerate(cfg["weights"]) for _ in range(k)]
            s1, s2 = self._scaler(cfg), self._scaler(cfg)
            r = []
            for s, a, kw in ((s1, X, {"sample_weight": wts}), (s2, X[rows], {})):
                try:
                    s.fit(a, **kw)
                    r.append(False)
                except ValueError:
                    r.append(True)
            if r[0] != r[1]:
                viol.append(("multiplicity-same-acceptance", r))
            elif not r[0]:
                if not np.allclose(s1.mean_, s2.mean_) or not np.allclose(s1.scale_, s2.scale_):
                    viol.append(("integer-weights==repeated-rows", {"mean": [s1.mean_.tolist(), s2.mean_.tolist()], "scale": [np.asarray(s1.scale_).tolist(), np.asarray(s2.scale_).tolist()]}))
            return {"rejected": r}, viol
        rtol = float(values.get("rtol", 0))
        atol = float(values.get("atol", 1e-12))
        w = None
        if cfg["weights"] in ("sym", "sym3"):
            tot = 1 if cfg["weights"] == "sym" else 3
            w = [float(values.get(f"w_{i}", 0)) for i in range(n - 1)]
            w = np.array(w + [tot - sum(w)])
        s = self._scaler(cfg, rtol=rtol, atol=atol)
        wn = np.ones(n) / n if w is None else w / w.sum()
        mu = wn @ X
        var = wn @ (X - mu) ** 2
        if cfg["column_wise"]:
            rej_oracle = bool(np.any(var < atol + np.abs(mu) * rtol))
            margin = np.min(np.abs(var - (atol + np.abs(mu) * rtol)))
        else:
            rej_oracle = bool(var.sum() < abs(mu.mean()) * rtol + atol)
            margin = abs(var.sum() - (abs(mu.mean()) * rtol + atol))
        try:
            s.fit(X, sample_weight=w)
            rejected = False
        except ValueError:
            rejected = True
        if cfg["with_std"] and rejected != rej_oracle and margin > 1e-9 * max(1.0, float(np.max(np.abs(var)))):
            viol.append(("rejected-iff-variance-below-tolerance", {"rejected": rejected, "oracle": rej_oracle, "var": var.tolist()}))
        if not cfg["with_std"] and rejected:
            viol.append(("no-rejection-without-scaling", None))
        if rejected:
            return {"rejected": True}, viol
        Z = s.transform(X)
        zmu = wn @ Z
        zvar = wn @ (Z - zmu) ** 2
        if cfg["with_mean"] and np.max(np.abs(zmu)) > 1e-7:
            viol.append(("weighted-mean-zero", zmu.tolist()))
        if cfg["with_std"]:
            if cfg["column_wise"] and np.max(np.abs(zvar - 1)) > 1e-7:
                viol.append(("weighted-variance-one-per-column", zvar.tolist()))
            if not cfg["column_wise"] and abs(zvar.sum() - 1) > 1e-7:
                viol.append(("weighted-total-variance-one", float(zvar.sum())))
        Xn = np.array([[float(values.get(f"q_{i}_{j}", 0.5 * i - j)) for j in range(m)] for i in range(2)])
        if not np.allclose(s.inverse_transform(s.transform(Xn)), Xn, atol=1e-8):
            viol.append(("inverse_transform-undoes-transform", None))
        if cfg["weights"] == "none" and cfg["column_wise"] and cfg["with_mean"] and cfg["with_std"]:
            ref = StandardScaler().fit_transform(X)
            if not np.allclose(Z, ref, atol=1e-7):
                viol.append(("equals-StandardScaler-formula", None))
        if not cfg["with_mean"] and np.any(np.asarray(s.mean_) != 0):
            viol.append(("mean_-zero-when-centring-off", None))
        if not cfg["with_std"] and np.any(np.asarray(s.scale_) != 1):
            viol.append(("scale_-one-when-scaling-off", None))
        if cfg["with_mean"]:
            t = np.array([float(values.get(f"t_{j}", 1.5 * (j + 1))) for j in range(m)])
            s2 = self._scaler(cfg, rtol=rtol, atol=atol)
            try:
                Z2 = s2.fit(X + t, sample_weight=w).transform(X + t)
                if not np.allclose(Z2, Z, atol=1e-6 * max(1.0, np.max(np.abs(Z)))):
                    viol.append(("shift-invariance", float(np.max(np.abs(Z2 - Z)))))
            except ValueError:
                if rtol == 0:
                    viol.append(("shift-rejection-only-through-rtol", None))
        if cfg["with_std"]:
            k = float(values.get("k", -2.5))
            s3 = self._scaler(cfg, rtol=rtol, atol=atol)
            try:
                Z3 = s3.fit(X * k, sample_weight=w).transform(X * k)
                if not np.allclose(Z3, np.sign(k) * Z, atol=1e-6 * max(1.0, np.max(np.abs(Z)))):
                    viol.append(("rescaling-invariance-up-to-sign", float(np.max(np.abs(Z3 - np.sign(k) * Z)))))
            except ValueError:
                pass
        return {"rejected": False}, viol

    def signature(self, cfg, clause, values, viol):
        names = sorted(set(v[0] for v in viol))
        return f"C11/{'+'.join(names)}/mean={cfg['with_mean']}/std={cfg['with_std']}/cw={cfg['column_wise']}/w={cfg['weights'] if isinstance(cfg['weights'], str) else 'int'}"


if __name__ == "__main__":
    sys.exit(runner.main(C11()))
