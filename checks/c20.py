"""C20 - prediction rigidities follow their closed form and scaling laws."""
from __future__ import annotations

import os
import sys

sys.path.insert(0, os.path.dirname(os.path.dirname(os.path.abspath(__file__))))

import numpy as np

from symx import arrays, core, runner, linalg
from symx.core import Formula, f_and, f_or, TRUE, FALSE
from checks import sel_common as sc

F_ = sc._F


def _scalar(v):
    """entries of the output arrays are 1x1 arrays / scalars depending on numpy's object assignment"""
    while isinstance(v, np.ndarray):
        v = v.reshape(-1)[0]
    return v


def oracle(train, test, alpha, blocks):
    """closed form, written without the square root: with s^2 = sum over features of the mean square over all
    training environments, B = sum_A m_A^T m_A (m_A unscaled structure means),
    PR(x) = 1 / (x_c (B + alpha s^2 I)^-1 x_c^T) where x_c is x restricted to the component block."""
    Xall = np.vstack(train)
    d = Xall.shape[1]
    s2 = (Xall * Xall).sum() / Xall.shape[0]
    means = [X.sum(axis=0) / X.shape[0] for X in train]
    B = arrays.zeros((d, d))
    for m in means:
        B = B + m.reshape(d, 1) @ m.reshape(1, d)
    M = B + (alpha * s2) * arrays.eye(d)
    Mi = linalg.inv(M)

    def pr(x, blk):
        xc = arrays.zeros(d)
        for j in blk:
            xc[j] = x[j]
        q = xc.reshape(1, d) @ Mi @ xc.reshape(d, 1)
        return q[0, 0]  # the quadratic form; rigidity = 1/q

    lpr = [[pr(X[i], range(d)) for i in range(X.shape[0])] for X in test]
    lcpr = [[[pr(X[i], blk) for blk in blocks] for i in range(X.shape[0])] for X in test]
    cpr = [[pr(X.sum(axis=0) / X.shape[0], blk) for blk in blocks] for X in test]
    return lpr, lcpr, cpr, M


class C20(runner.Check):
    pid = "C20"
    modules = ["skmatter.metrics._prediction_rigidities"]
    linalg_stubs = linalg.LINALG_STUBS
    engine_opts = dict(pool=40, max_paths=2000, feas_ms=2500, t3_ms=15000, t2_ms=15000, wall_s=1500)
    expected_events = ("div0", "singular")
    bounds_text = ("lists of 1-3 training and 1-2 test structures with 1-2 environments each, feature dimension d<=2 (thorough: 3), alpha symbolic > 0, "
                   "component partitions of the feature vector enumerated; all entries symbolic.")
    stubs = ["np.linalg.pinv / matrix_rank -> closed forms via determinants and minors (forks on vanishing minors)", "np.sqrt -> sqrt atom"]
    assumptions = ["exact real arithmetic", "alpha > 0", "not all training features zero (zero global scale ends the path)",
                   "a test environment whose (block-restricted) feature vector is zero ends the path (rigidity infinite)"]
    outside = ["d > 3, more than 3 structures", "alpha = 0 with rank-deficient covariance",
               "strict positivity for d >= 2 as a direct solver query (z3/cvc5 return unknown on x^T (B + c I)^-1 x > 0 with 13 symbols; for d >= 2 positivity "
               "follows from the decided closed form, whose matrix is positive definite for alpha > 0, but is not decided separately)"]

    def configs(self, tier):
        cf = []

        def add(d, tr, te, comp, mode, cost=1):
            cf.append({"d": d, "train": tr, "test": te, "comp": comp, "mode": mode, "_cost": cost})

        add(2, [2, 1], [1, 2], [1, 1], "closed-form", 4)
        add(2, [1, 1], [1], [2], "closed-form", 2)
        add(1, [2, 1], [2, 1], [1], "closed-form", 1)
        add(2, [2, 1], [1], [1, 1], "rescale", 4)
        add(2, [1, 1], [1], [1, 1], "alpha-monotone", 4)
        add(1, [2, 1], [2], [1], "alpha-monotone", 1)
        add(1, [2, 1], [1, 2], [1], "positive", 1)
        if tier == "thorough":
            add(3, [1, 2], [1, 1], [1, 2], "closed-form", 30)
            add(3, [1, 1, 1], [2], [2, 1], "closed-form", 30)
            add(2, [2, 2, 1], [2, 1], [1, 1], "closed-form", 10)
            add(2, [2, 1], [2], [2], "rescale", 6)
            # (alpha-monotone for d=2 with 3 training environments returns `unknown` from z3/cvc5: not part of the thorough grid)
            add(1, [1, 2, 1], [2, 1], [1], "positive", 2)
        return cf

    def _inputs(self, cfg):
        d = cfg["d"]
        train = [arrays.symbols(f"a{k}", (n, d)) for k, n in enumerate(cfg["train"])]
        test = [arrays.symbols(f"b{k}", (n, d)) for k, n in enumerate(cfg["test"])]
        return train, test

    def _blocks(self, cfg):
        out, s = [], 0
        for k in cfg["comp"]:
            out.append(list(range(s, s + k)))
            s += k
        return out

    def harness(self, c, cfg, P):
        from skmatter.metrics import local_prediction_rigidity, componentwise_prediction_rigidity

        d = cfg["d"]
        train, test = self._inputs(cfg)
        alpha = c.sym("alpha", positive=True)
        blocks = self._blocks(cfg)
        comp = np.array(cfg["comp"])
        LPR, rd = local_prediction_rigidity([t.copy() for t in train], [t.copy() for t in test], alpha)
        CPR, LCPR, rd2 = componentwise_prediction_rigidity([t.copy() for t in train], [t.copy() for t in test], alpha, comp)
        o_lpr, o_lcpr, o_cpr, M = oracle(train, test, alpha, blocks)
        # shapes / order: one list entry per test structure, one value per environment
        P.require(Formula.const(len(LPR) == len(test) and all(len(LPR[k]) == test[k].shape[0] for k in range(len(test)))), "per-structure-splitting")
        P.require(Formula.const(len(LCPR) == len(test) and all(np.shape(LCPR[k]) == (test[k].shape[0], len(blocks)) for k in range(len(test)))
                                and np.shape(CPR) == (len(test), len(blocks))), "per-structure-splitting-componentwise")
        P.require(Formula.const(int(rd) == 0 and int(rd2) == 0), "rank_diff==d-rank(regularised covariance)", {"rank_diff": [int(rd), int(rd2)]})
        mode = cfg["mode"]
        if mode == "closed-form":
            fs = []
            for k in range(len(test)):
                for i in range(test[k].shape[0]):
                    fs.append(core.cross_prod_is_one(_scalar(LPR[k][i]), o_lpr[k][i]))
            P.require_all(fs, "LPR==closed-form")
            fs, fc = [], []
            for k in range(len(test)):
                for ci in range(len(blocks)):
                    fc.append(core.cross_prod_is_one(_scalar(CPR[k, ci]), o_cpr[k][ci]))
                    for i in range(test[k].shape[0]):
                        fs.append(core.cross_prod_is_one(_scalar(LCPR[k][i, ci]), o_lcpr[k][i][ci]))
            P.require_all(fs, "LCPR==closed-form-on-block")
            P.require_all(fc, "CPR==closed-form-on-block-of-structure-mean")
            if len(blocks) == 1:
                fs = [core.cross_eq(_scalar(LCPR[k][i, 0]), _scalar(LPR[k][i])) for k in range(len(test)) for i in range(test[k].shape[0])]
                P.require_all(fs, "LCPR(single component)==LPR")
            fs = [core.cross_eq(_scalar(CPR[k, ci]), _scalar(LCPR[k][0, ci])) for k in range(len(test)) if test[k].shape[0] == 1 for ci in range(len(blocks))]
            P.require_all(fs, "CPR(one-environment structure)==LCPR")
        elif mode == "positive":
            fs = [F_(_scalar(LPR[k][i]) > 0) for k in range(len(test)) for i in range(test[k].shape[0])]
            P.require_all(fs, "LPR>0")
            fs = [F_(_scalar(CPR[k, ci]) > 0) for k in range(len(test)) for ci in range(len(blocks))]
            P.require_all(fs, "CPR>0")
        elif mode == "rescale":
            kf = c.sym("k")
            c.assume(kf != 0)
            LPR2, _ = local_prediction_rigidity([t * kf for t in train], [t * kf for t in test], alpha)
            CPR2, LCPR2, _ = componentwise_prediction_rigidity([t * kf for t in train], [t * kf for t in test], alpha, comp)
            fs = [core.cross_eq(_scalar(LPR2[k][i]), _scalar(LPR[k][i])) for k in range(len(test)) for i in range(test[k].shape[0])]
            P.require_all(fs, "LPR-invariant-under-common-rescaling")
            fs = [core.cross_eq(_scalar(CPR2[k, ci]), _scalar(CPR[k, ci])) for k in range(len(test)) for ci in range(len(blocks))]
            P.require_all(fs, "CPR-invariant-under-common-rescaling")
        elif mode == "alpha-monotone":
            beta = c.sym("beta")
            c.assume(beta > alpha)
            LPRb, _ = local_prediction_rigidity([t.copy() for t in train], [t.copy() for t in test], beta)
            fs = [F_(_scalar(LPRb[k][i]) >= _scalar(LPR[k][i])) for k in range(len(test)) for i in range(test[k].shape[0])]
            P.require_all(fs, "LPR-nondecreasing-in-alpha")
        return {"rank_diff": [int(rd), int(rd2)]}

    # ------------------------------------------------------------------ float replay
    def concrete(self, cfg, values):
        from skmatter.metrics import local_prediction_rigidity, componentwise_prediction_rigidity

        d = cfg["d"]

        def arr(pref, k, n):
            return np.array([[float(values.get(f"{pref}{k}_{i}_{j}", 0.3 + 0.7 * i - 0.4 * j + 0.2 * k)) for j in range(d)] for i in range(n)])

        train = [arr("a", k, n) for k, n in enumerate(cfg["train"])]
        test = [arr("b", k, n) for k, n in enumerate(cfg["test"])]
        alpha = float(values.get("alpha", 0.1))
        blocks = self._blocks(cfg)
        comp = np.array(cfg["comp"])
        viol = []
        with np.errstate(all="ignore"):
            LPR, rd = local_prediction_rigidity([t.copy() for t in train], [t.copy() for t in test], alpha)
            CPR, LCPR, rd2 = componentwise_prediction_rigidity([t.copy() for t in train], [t.copy() for t in test], alpha, comp)
            Xall = np.vstack(train)
            s2 = (Xall**2).sum() / len(Xall)
            B = sum(np.outer(t.mean(0), t.mean(0)) for t in train)
            Mi = np.linalg.inv(B + alpha * s2 * np.eye(d))

            def pr(x, blk):
                xc = np.zeros(d)
                xc[blk] = x[blk]
                return 1 / (xc @ Mi @ xc)

            def close(a, b):
                return (np.isinf(a) and np.isinf(b)) or abs(a - b) <= 1e-6 * max(1.0, abs(b))

            if len(LPR) != len(test) or any(len(LPR[k]) != len(test[k]) for k in range(len(test))):
                viol.append(("per-structure-splitting", None))
            if rd != 0 or rd2 != 0:
                viol.append(("rank_diff==d-rank(regularised covariance)", [int(rd), int(rd2)]))
            for k in range(len(test)):
                for i in range(len(test[k])):
                    if not close(LPR[k][i], pr(test[k][i], list(range(d)))):
                        viol.append(("LPR==closed-form", {"got": float(LPR[k][i]), "want": float(pr(test[k][i], list(range(d))))}))
                    if not LPR[k][i] > 0:
                        viol.append(("LPR>0", float(LPR[k][i])))
                    for ci, blk in enumerate(blocks):
                        if not close(LCPR[k][i, ci], pr(test[k][i], blk)):
                            viol.append(("LCPR==closed-form-on-block", {"got": float(LCPR[k][i, ci]), "want": float(pr(test[k][i], blk))}))
                for ci, blk in enumerate(blocks):
                    if not close(CPR[k, ci], pr(test[k].mean(0), blk)):
                        viol.append(("CPR==closed-form-on-block-of-structure-mean", {"got": float(CPR[k, ci]), "want": float(pr(test[k].mean(0), blk))}))
                    if not CPR[k, ci] > 0:
                        viol.append(("CPR>0", float(CPR[k, ci])))
            if cfg["mode"] == "rescale":
                kf = float(values.get("k", -3.0))
                LPR2, _ = local_prediction_rigidity([t * kf for t in train], [t * kf for t in test], alpha)
                for k in range(len(test)):
                    if not np.allclose(LPR2[k], LPR[k], rtol=1e-6):
                        viol.append(("LPR-invariant-under-common-rescaling", None))
            if cfg["mode"] == "alpha-monotone":
                beta = float(values.get("beta", alpha * 2 + 1))
                LPRb, _ = local_prediction_rigidity([t.copy() for t in train], [t.copy() for t in test], beta)
                for k in range(len(test)):
                    if np.any(LPRb[k] < LPR[k] * (1 - 1e-9)):
                        viol.append(("LPR-nondecreasing-in-alpha", None))
        return {"rank_diff": [int(rd), int(rd2)]}, viol

    def signature(self, cfg, clause, values, viol):
        names = sorted(set(v[0] for v in viol))
        return f"C20/{'+'.join(names)}/d={cfg['d']}/comp={cfg['comp']}"


if __name__ == "__main__":
    sys.exit(runner.main(C20()))
