"""Uninterpreted-function stubs (kind 3) for the sparse/dense decompositions used by the CUR family:
scipy.sparse.linalg.svds, scipy eigsh, scipy eigh.  Outputs are atoms u = f(matrix entries, i, j);
identical argument matrices give identical outputs (congruence by atom caching), plus the
quantifier-free contract:
  * every returned vector has unit norm;
  * for the leading vector (largest singular / eigen value) of a matrix that is not identically
    zero: entries belonging to identically-zero columns/rows of the matrix are zero;
  * eigenvalues are returned in ascending order (eigh) and are non-negative for the PSD inputs here.
What the routine computes beyond that is trusted.
"""
from __future__ import annotations

import numpy as np

from symx import arrays, core
from symx.arrays import SymArray, is_sym
from symx.core import Formula, f_and, f_or, ctx

NONZERO = []
CALLS = []  # log of (routine, matrix) for the C07 "right matrix at the right time" clauses


def reset():
    CALLS.clear()
    NONZERO.clear()


def _flat(A):
    return [A[idx] for idx in np.ndindex(*A.shape)]


def _is_zero(x):
    return isinstance(x, core.SReal) and not x.f.numer


def _ident_zero(v):
    return all(_is_zero(x) or (not isinstance(x, core.SReal) and x == 0) for x in v)


def _unit(c, vec):
    s = None
    for x in vec:
        s = x * x if s is None else s + x * x
    c._add_pc(core._as_formula(s == 1))


def _vectors(name, A, k, length, axis):
    """k unit vectors of dimension `length`; vector 0 is the leading one.
    axis=1: entries correspond to columns of A; axis=0: to rows.
    For a zero matrix ARPACK/LAPACK return arbitrary vectors: the formula "matrix != 0" is appended to
    NONZERO and is a hypothesis of every obligation of the CUR family (rank-exhausted inputs are
    covered by concrete probes only)."""
    c = ctx()
    args = _flat(A)
    nzs = []
    for x in args:
        r = (x != 0) if isinstance(x, core.SReal) else bool(x != 0)
        nzs.append(core._as_formula(r) if not isinstance(r, bool) else (core.TRUE if r else core.FALSE))
    nz = f_or(*nzs)
    NONZERO.append(nz)  # hypothesis of every CUR-family obligation: the decomposed matrix is not zero
    V = np.empty((k, length), dtype=object)
    for i in range(k):
        for j in range(length):
            line = _flat(np.asarray(A[:, j] if axis == 1 else A[j, :]))
            if i == 0 and _ident_zero(line):
                V[i, j] = c.const(0)
            else:
                V[i, j] = c.uf(f"{name}_{i}_{j}", args)
        _unit(c, [V[i, j] for j in range(length)])
    # leading vector: a line that is zero on this path gives a zero entry (if the matrix is nonzero)
    for j in range(length):
        if isinstance(V[0, j], core.SReal) and V[0, j].is_const():
            continue
        line = _flat(np.asarray(A[:, j] if axis == 1 else A[j, :]))
        z = f_and(*[core._as_formula(x == 0) for x in line if isinstance(x, core.SReal)] +
                  [core.FALSE for x in line if not isinstance(x, core.SReal) and x != 0])
        if z.kind == "const" and not z.a:
            continue
        c._add_pc(f_or(~z, ~nz, core._as_formula(V[0, j] == 0)))
    return V.view(SymArray)


def svds(A, k=6, return_singular_vectors=True, random_state=None, **kw):
    if not is_sym(A):
        import scipy.sparse.linalg as sl

        return sl.svds(A, k=k, return_singular_vectors=return_singular_vectors, random_state=random_state, **kw)
    A = arrays.sym(A)
    CALLS.append(("svds", A.copy(), k, return_singular_vectors))
    n, m = A.shape
    c = ctx()
    s = np.empty(k, dtype=object)
    for i in range(k):
        s[i] = c.uf(f"svds_s_{i}", _flat(A))
        c._add_pc(core._as_formula(s[i] >= 0))
    s = s.view(SymArray)
    if return_singular_vectors == "u":
        U = _vectors("svds_u", A, k, n, axis=0)  # (k, n): entries per row of A
        # scipy returns ascending singular values: the leading vector is the LAST column
        Ucols = U[::-1].T.copy().view(SymArray)
        return Ucols, s, None
    if return_singular_vectors == "vh":
        V = _vectors("svds_v", A, k, m, axis=1)
        return None, s, V[::-1].copy().view(SymArray)
    raise core.Unsupported("svds stub: both vector sets requested")


def _eig(A, k, name):
    A = arrays.sym(A)
    n = A.shape[0]
    c = ctx()
    v = np.empty(k, dtype=object)
    for i in range(k):
        v[i] = c.uf(f"{name}_val_{i}", _flat(A))
    # ascending order contract (v[k-1] largest); PSD inputs here (Gram / covariance): largest >= 0
    for i in range(k - 1):
        c._add_pc(core._as_formula(v[i] <= v[i + 1]))
    c._add_pc(core._as_formula(v[k - 1] >= 0))
    U = _vectors(name, A, k, n, axis=0)  # U[0] leading
    Ucols = U[::-1].T.copy().view(SymArray)  # leading vector is the last column, like LAPACK/ARPACK
    return v.view(SymArray), Ucols


def eigsh(A, k=6, **kw):
    if not is_sym(A):
        from scipy.sparse.linalg import eigsh as real

        return real(A, k=k, **kw)
    CALLS.append(("eigsh", arrays.sym(A).copy(), k))
    return _eig(A, k, "eigsh")


def eigh(A, **kw):
    if not is_sym(A):
        from scipy.linalg import eigh as real

        return real(A, **kw)
    CALLS.append(("eigh", arrays.sym(A).copy(), A.shape[0]))
    return _eig(A, A.shape[0], "eigh")


class _ScipyShim:
    """stands in for the module global `scipy` of skmatter._selection (scipy.sparse.linalg.svds)"""

    class sparse:
        class linalg:
            svds = staticmethod(svds)


def patches():
    return {"skmatter._selection": {"scipy": _ScipyShim, "eigsh": eigsh, "eigh": eigh}}


# ------------------------------------------------------------------ contract validation on real runs
class recording:
    """context manager for concrete replays: routes the real svds/eigsh/eigh of skmatter._selection through
    wrappers that check the stub contract on the actual outputs (unit norm, zero line of a nonzero matrix gives a
    zero entry in the leading vector, ascending eigenvalues). Violations are collected in .bad"""

    def __enter__(self):
        import scipy.sparse.linalg as sl
        import skmatter._selection as S

        self.S = S
        self.saved = {k: getattr(S, k) for k in ("scipy", "eigsh", "eigh")}
        self.bad = []
        self.calls = 0
        rec = self
        real_svds = sl.svds

        def chk_vec(v, A, axis, what):
            rec.calls += 1
            if abs(np.linalg.norm(v) - 1) > 1e-8:
                rec.bad.append(f"{what}: leading vector not unit")
            if np.max(np.abs(A)) > 0:
                lines = A if axis == 0 else A.T
                sc = np.max(np.abs(A))
                for j, ln in enumerate(lines):
                    if np.max(np.abs(ln)) == 0 and abs(v[j]) > 1e-7:
                        rec.bad.append(f"{what}: entry {j} of leading vector is {v[j]} for a zero line")

        def svds_w(A, k=6, return_singular_vectors=True, **kw):
            U, s, Vt = real_svds(A, k=k, return_singular_vectors=return_singular_vectors, **kw)
            A = np.asarray(A)
            if return_singular_vectors == "u" and np.max(s) > 1e-9 * max(1.0, np.max(np.abs(A))):
                chk_vec(U[:, int(np.argmax(s))], A, 0, "svds-u")
            if return_singular_vectors == "vh" and np.max(s) > 1e-9 * max(1.0, np.max(np.abs(A))):
                chk_vec(Vt[int(np.argmax(s))], A, 1, "svds-vh")
            return U, s, Vt

        class Shim:
            class sparse:
                class linalg:
                    svds = staticmethod(svds_w)

        def eig_w(real):
            def w(A, *a, **k):
                v, U = real(A, *a, **k)
                A = np.asarray(A)
                if np.any(np.diff(v) < -1e-9 * max(1.0, np.max(np.abs(v)))):
                    rec.bad.append("eig: eigenvalues not ascending")
                if np.max(v) > 1e-9 * max(1.0, np.max(np.abs(A))):
                    chk_vec(U[:, -1], A, 0, "eig")
                return v, U

            return w

        S.scipy = Shim
        S.eigsh = eig_w(self.saved["eigsh"])
        S.eigh = eig_w(self.saved["eigh"])
        return self

    def __exit__(self, *a):
        for k, v in self.saved.items():
            setattr(self.S, k, v)
