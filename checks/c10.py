"""C10 - Ridge2FoldCV equals explicit two-fold cross-validated regularised least squares."""
from __future__ import annotations

import os
import sys
from fractions import Fraction as Fr

sys.path.insert(0, os.path.dirname(os.path.dirname(os.path.abspath(__file__))))

import numpy as np

from symx import arrays, core, runner, linalg
from symx.arrays import is_sym, SymArray
from symx.core import Formula, f_and, f_or, TRUE, FALSE
from checks import sel_common as sc
from checks.c14 import fro2

F_ = sc._F


# ------------------------------------------------------------------ sklearn scorers by their formula AND calling convention
def _mse(y_true, y_pred):
    d = np.asarray(y_true, dtype=object).reshape(len(y_true), -1) - np.asarray(y_pred, dtype=object).reshape(len(y_true), -1)
    return fro2(d) / d.size


def _r2(y_true, y_pred):
    yt = np.asarray(y_true, dtype=object).reshape(len(y_true), -1)
    yp = np.asarray(y_pred, dtype=object).reshape(len(y_true), -1)
    tot = None
    for j in range(yt.shape[1]):
        mu = yt[:, j].sum() / yt.shape[0]
        ss_res = fro2(yt[:, j] - yp[:, j])
        ss_tot = fro2(yt[:, j] - mu)
        r = 1 - ss_res / ss_tot
        tot = r if tot is None else tot + r
    return tot / yt.shape[1]


def score_func(name):
    if name in (None, "neg_mean_squared_error"):
        return lambda yt, yp: -_mse(yt, yp)
    if name == "neg_root_mean_squared_error":
        return lambda yt, yp: -core.ssqrt(_mse(yt, yp))
    if name == "r2":
        return _r2
    raise core.Unsupported(f"scorer {name}")


class SkScorer:
    """sklearn scorer contract: scorer(estimator, X, y_true) = score_func(y_true, estimator.predict(X))"""

    def __init__(self, name):
        self.f = score_func(name)

    def __call__(self, estimator, X, y_true):
        v = self.f(y_true, estimator.predict(X))
        # abstraction by naming: a score is a large rational function; downstream code only compares and averages scores
        return core.ctx().name(v, "score") if isinstance(v, core.SReal) else v


def stub_check_scoring(estimator, scoring=None, allow_none=False):
    return SkScorer(scoring)


_REALCS = {}


class C10(runner.Check):
    pid = "C10"
    modules = ["skmatter.linear_model._ridge"]
    linalg_stubs = linalg.LINALG_STUBS
    engine_opts = dict(pool=48, max_paths=4000, feas_ms=1500, t3_ms=12000, t2_ms=12000, wall_s=1500)
    expected_events = ("singular", "sqrt-neg")
    violation_events = ("div0",)
    bounds_text = ("folds from factors X1 = Q1 diag(s1) V^T, X2 = Q2 diag(s2) V^T (2 + 2 rows, 2 features; common right frame from the library so that the full-data SVD is "
                   "also exact), spectra symbolic (positive; one rank-deficient configuration with exact zeros), y symbolic (1-2 targets), alpha grid of two symbolic values "
                   "(absolute > 0; relative in [0,1) incl. exactly 0), both regularisation methods, scorers neg-MSE / neg-RMSE / r2, cv None (KFold, no shuffle) and explicit index pairs.")
    stubs = ["np.linalg.svd -> verified-frame SVD", "sklearn check_scoring -> scorer objects with sklearn's calling convention scorer(estimator, X, y_true) and the metric formulas",
             "KFold / check_cv / joblib Parallel(n_jobs=None) run unmodified"]
    assumptions = ["exact real arithmetic", "non-zero singular values of the folds exceed 1e-6 (clear of rcond = max(shape)*eps)", "right singular frame shared by both folds and inside the library", "r2: fold targets not constant"]
    outside = ["frames outside the library", "n_jobs=2 (joblib processes)", "shuffle=True seeds (index choice is concrete and independent of the data)"]

    def configs(self, tier):
        cf = []

        def add(method, atype, scoring, p=1, V="R35", Q=("I", "R35"), cv=None, cost=3, **kw):
            c = {"method": method, "atype": atype, "scoring": scoring, "p": p, "V": V, "Q": list(Q), "cv": cv, "_cost": cost}
            c.update(kw)
            cf.append(c)

        # quick: spectra ordered by assumption (one ordering of the fold singular values; all orderings in thorough)
        add("tikhonov", "absolute", None, ordered=True)
        add("tikhonov", "absolute", "r2", ordered=True, cost=5)
        add("cutoff", "absolute", None, ordered=True, cost=6)
        add("tikhonov", "absolute", None, cv=[[0, 2], [1, 3]], V="R513", ordered=True, cost=3)
        add("tikhonov", "absolute", None, cv=[[0, 2, 4], [1, 3]], Q=("H122", "R35"), ordered=True, cost=4)  # unequal folds
        add("tikhonov", "relative", None, rankdef=True, zero_alpha=True, cost=3)
        add("cutoff", "relative", None, rankdef=True, zero_alpha=True, cost=3)
        add("tikhonov", "absolute", None, rankdef="fold1", cost=4)  # the two folds have different ranks
        add("cutoff", "absolute", None, rankdef="fold2", cost=4)
        if tier == "thorough":
            add("tikhonov", "absolute", None)
            add("tikhonov", "relative", "neg_root_mean_squared_error", ordered=True, cost=20)
            add("cutoff", "relative", "r2", ordered=True, cost=30, p=2)
            add("cutoff", "absolute", None, cost=30)
            for V in ("I", "R35", "R513", "F35"):
                add("tikhonov", "absolute", "r2", p=2, V=V, Q=("R35", "R513"), cost=8)
                add("cutoff", "absolute", "neg_root_mean_squared_error", V=V, cost=6)
            add("tikhonov", "relative", "r2", cv=[[3, 1], [0, 2]], cost=6)
            add("cutoff", "relative", None, cv=[[0, 3], [2, 1]], p=2, cost=6)
        return cf

    def patches(self, cfg):
        import skmatter.linear_model._ridge as R

        _REALCS["check_scoring"] = R.check_scoring if not isinstance(R.check_scoring, type(stub_check_scoring)) or R.check_scoring is not stub_check_scoring else _REALCS.get("check_scoring")
        return {"skmatter.linear_model._ridge": {"check_scoring": self._cs}}

    def _cs(self, estimator, scoring=None, allow_none=False):
        if core.CTX is None:
            from sklearn.metrics import check_scoring as real

            return real(estimator, scoring=scoring, allow_none=allow_none)
        return stub_check_scoring(estimator, scoring, allow_none)

    # ------------------------------------------------------------------
    def _folds(self, cfg):
        if cfg["cv"] is None:
            return [0, 1], [2, 3]  # KFold(2, shuffle=False): train = second half... resolved from the real KFold below
        return cfg["cv"][0], cfg["cv"][1]

    def harness(self, c, cfg, P):
        from skmatter.linear_model import Ridge2FoldCV
        from sklearn.model_selection import KFold

        m, p = 2, cfg["p"]
        V = linalg.frame(2, cfg["V"])
        n1 = len(cfg["cv"][0]) if cfg["cv"] else 2
        n2 = len(cfg["cv"][1]) if cfg["cv"] else 2
        Q1 = [r[:2] for r in linalg.frame(n1, cfg["Q"][0])]  # first two columns: orthonormal (n1 x 2)
        Q2 = [r[:2] for r in linalg.frame(n2, cfg["Q"][1])]
        linalg.HINTS[:] = [V] + [linalg.frame(k_, nm) for k_, nm in ((n1, cfg["Q"][0]), (n2, cfg["Q"][1]))]
        Va = arrays.exact(V)
        s1 = [c.sym("s1_0", positive=True), c.sym("s1_1", positive=True)]
        s2 = [c.sym("s2_0", positive=True), c.sym("s2_1", positive=True)]
        for sv in s1 + s2:
            # singular values are either exactly zero (rank-deficient configuration) or clear of the numerical-rank threshold
            c.assume(sv * sv > Fr("1e-12"))
        if cfg.get("ordered"):
            c.assume(s1[0] > s1[1])
            c.assume(s2[0] > s2[1])
            c.assume(s1[0] > s2[0])
        if cfg.get("rankdef") in (True, "fold1"):
            s1[1] = c.const(0)
        if cfg.get("rankdef") in (True, "fold2"):
            s2[1] = c.const(0)
        A = arrays.exact(Q1) @ arrays.array([[s1[0], 0], [0, s1[1]]], dtype=object) @ Va.T
        B = arrays.exact(Q2) @ arrays.array([[s2[0], 0], [0, s2[1]]], dtype=object) @ Va.T
        ntot = n1 + n2
        y = arrays.symbols("y", (ntot, p))
        # place the factor blocks at the rows of each fold
        if cfg["cv"] is None:
            f1, f2 = next(KFold(n_splits=2, shuffle=False).split(np.zeros((4, 1))))
            cv = None
        else:
            f1, f2 = np.array(cfg["cv"][0]), np.array(cfg["cv"][1])
            cv = [(f1, f2)]
        X = arrays.zeros((ntot, m))
        for r, i in enumerate(f1):
            X[i] = A[r]
        for r, i in enumerate(f2):
            X[i] = B[r]
        if cfg["atype"] == "absolute":
            alphas = arrays.array([c.sym("al_0", positive=True), c.sym("al_1", positive=True)], dtype=object)
        else:
            a0 = c.const(0) if cfg.get("zero_alpha") else c.sym("al_0", nonneg=True)
            a1 = c.sym("al_1", nonneg=True)
            for a in (a0, a1):
                if isinstance(a < 1, Formula):
                    c.assume(a < 1)
            alphas = arrays.array([a0, a1], dtype=object)
        if cfg["scoring"] == "r2":
            for f in (f1, f2):
                for j in range(p):
                    col = y[f][:, j]
                    mu = col.sum() / len(f)
                    c.assume(fro2(col - mu) != 0)  # r2 is undefined for constant fold targets
        est = Ridge2FoldCV(alphas=alphas, alpha_type=cfg["atype"], regularization_method=cfg["method"], scoring=cfg["scoring"], cv=cv, shuffle=False)
        est.fit(X, y if p > 1 else y.reshape(-1) if False else y)
        # ---------------- oracle: explicit two-fold regularised least squares
        X1, X2, y1, y2 = X[f1], X[f2], y[f1], y[f2]
        sf = score_func(cfg["scoring"])
        smax = None
        if cfg["atype"] == "relative":
            smax = arrays.amax(arrays.array([v for v in s1 + s2], dtype=object))
        rc = core.to_fraction(float(max(ntot, m) * np.spacing(1.0)))  # the code's rcond, converted exactly as the engine converts float constants

        def solve(Xa, ya, al, sv):
            """regularised least squares on (Xa, ya) in the singular basis (V, sv): Tikhonov s/(s^2+al) or cut-off 1/s for s > al;
            directions with s <= rcond are excluded"""
            W = arrays.zeros((m, p))
            for i in range(m):
                keep = bool(sv[i] > rc)
                if not keep:
                    continue
                v = Va[:, i].reshape(m, 1)
                proj = (Xa @ v).reshape(-1)  # = s_i u_i
                coef = (proj.reshape(1, -1) @ ya).reshape(1, p)  # s_i u_i^T y
                if cfg["method"] == "tikhonov":
                    W = W + v @ coef / (sv[i] * sv[i] + al)
                else:
                    if bool(sv[i] > al):
                        W = W + v @ coef / (sv[i] * sv[i])
            return W

        cvv = []
        for k in range(2):
            al = alphas[k] * smax if smax is not None else alphas[k]
            w1 = solve(X1, y1, al, s1)
            w2 = solve(X2, y2, al, s2)
            cvv.append((c.name(sf(y2, X2 @ w1), "o12") + c.name(sf(y1, X1 @ w2), "o21")) / 2)
        P.require_all([core.cross_eq(est.cv_values_[k], cvv[k]) for k in range(2)], "cv_values_==explicit-two-fold-scores")
        best = [i for i in range(2) if (est.alpha_ is alphas[i]) or (isinstance(est.alpha_ == alphas[i], bool) and est.alpha_ == alphas[i])]
        bi = best[0] if best else int(np.argmax([0, 0]))
        P.require(Formula.const(bool(best)), "alpha_-is-a-grid-value")
        P.require_all([F_(est.cv_values_[bi] >= est.cv_values_[j]) for j in range(2)], "alpha_-has-the-best-cv-value")
        # final coefficients: regularised solution on the full data, rank-deficient directions excluded
        sfull = [core.ssqrt(s1[i] * s1[i] + s2[i] * s2[i]) for i in range(m)]
        al = alphas[bi] * smax if smax is not None else alphas[bi]
        Wfull = solve(X, y, al, sfull)
        P.require_all(sc.arr_eq(np.asarray(est.coef_, dtype=object).reshape(p, m), Wfull.T), "coef_==full-data-regularised-solution")
        Xn = arrays.symbols("z", (2, m))
        P.require_all(sc.arr_eq(est.predict(Xn), Xn @ est.coef_.T), "predict==X@coef_.T")
        return {"best": bi}

    # ------------------------------------------------------------------ float replay
    def concrete(self, cfg, values):
        from skmatter.linear_model import Ridge2FoldCV
        from sklearn.model_selection import KFold
        from sklearn.metrics import mean_squared_error, r2_score

        m, p = 2, cfg["p"]
        V = np.array(linalg.frame(2, cfg["V"]), dtype=float)
        n1 = len(cfg["cv"][0]) if cfg["cv"] else 2
        n2 = len(cfg["cv"][1]) if cfg["cv"] else 2
        ntot = n1 + n2
        Q1 = np.array(linalg.frame(n1, cfg["Q"][0]), dtype=float)[:, :2]
        Q2 = np.array(linalg.frame(n2, cfg["Q"][1]), dtype=float)[:, :2]
        s1 = [float(values.get("s1_0", 2.0)), float(values.get("s1_1", 0.7))]
        s2 = [float(values.get("s2_0", 1.3)), float(values.get("s2_1", 0.4))]
        if cfg.get("rankdef") in (True, "fold1"):
            s1[1] = 0.0
        if cfg.get("rankdef") in (True, "fold2"):
            s2[1] = 0.0
        A, B = Q1 @ np.diag(s1) @ V.T, Q2 @ np.diag(s2) @ V.T
        rng = np.random.RandomState(2)
        y = np.array([[float(values.get(f"y_{i}_{j}", rng.randn())) for j in range(p)] for i in range(ntot)])
        if cfg["cv"] is None:
            f1, f2 = next(KFold(n_splits=2, shuffle=False).split(np.zeros((4, 1))))
            cv = None
        else:
            f1, f2 = np.array(cfg["cv"][0]), np.array(cfg["cv"][1])
            cv = [(f1, f2)]
        X = np.zeros((ntot, m))
        X[f1], X[f2] = A, B
        if cfg["atype"] == "absolute":
            alphas = np.array([float(values.get("al_0", 0.3)) or 0.3, float(values.get("al_1", 1.5)) or 1.5])
        else:
            alphas = np.array([0.0 if cfg.get("zero_alpha") else float(values.get("al_0", 0.1)), float(values.get("al_1", 0.6))])
        viol = []
        with np.errstate(all="ignore"):
            est = Ridge2FoldCV(alphas=alphas.copy(), alpha_type=cfg["atype"], regularization_method=cfg["method"], scoring=cfg["scoring"], cv=cv, shuffle=False).fit(X, y)
        if not np.all(np.isfinite(est.coef_)):
            viol.append(("coefficients-bounded-for-rank-deficient-X", np.asarray(est.coef_).tolist()))

        def sfun(yt, yp):
            if cfg["scoring"] in (None, "neg_mean_squared_error"):
                return -mean_squared_error(yt, yp)
            if cfg["scoring"] == "neg_root_mean_squared_error":
                return -np.sqrt(mean_squared_error(yt, yp))
            return r2_score(yt, yp)

        def solve(Xa, ya, al):
            U, s, Vt = np.linalg.svd(Xa, full_matrices=False)
            keep = s > 1e-12 * max(1.0, s.max())
            if cfg["method"] == "tikhonov":
                f = np.where(keep, s / (s**2 + al + (0 if al > 0 else 1e-300)), 0.0)
            else:
                f = np.where(keep & (s > al), 1.0 / np.where(s > 0, s, 1.0), 0.0)
            return (Vt.T * f) @ (U.T @ ya)

        X1, X2, y1, y2 = X[f1], X[f2], y[f1], y[f2]
        scale = max(np.linalg.svd(X1, compute_uv=False).max(), np.linalg.svd(X2, compute_uv=False).max()) if cfg["atype"] == "relative" else 1.0
        cvv = []
        for al in alphas * scale:
            cvv.append((sfun(y2, X2 @ solve(X1, y1, al)) + sfun(y1, X1 @ solve(X2, y2, al))) / 2)
        got = np.asarray(est.cv_values_, dtype=float)
        if not np.allclose(got, cvv, rtol=1e-6, atol=1e-8):
            viol.append(("cv_values_==explicit-two-fold-scores", {"got": got.tolist(), "explicit": [float(v) for v in cvv]}))
        bi = int(np.argmax(cvv))
        if abs(cvv[0] - cvv[1]) > 1e-9 and est.alpha_ != alphas[bi]:
            viol.append(("alpha_-has-the-best-cv-value", {"alpha_": float(est.alpha_), "grid": alphas.tolist(), "explicit": [float(v) for v in cvv]}))
        bsel = int(np.argmax(got))
        Wfull = solve(X, y, alphas[bsel] * scale)
        if np.all(np.isfinite(est.coef_)) and not np.allclose(np.asarray(est.coef_).reshape(p, m), Wfull.T, rtol=1e-6, atol=1e-8):
            viol.append(("coef_==full-data-regularised-solution", {"got": np.asarray(est.coef_).tolist(), "want": Wfull.T.tolist()}))
        return {"best": bsel}, viol

    def fix_values(self, cfg, new, model):
        for k in list(new):
            if k.startswith("s"):
                new[k] = abs(new[k]) + Fr(1, 2)
            if k.startswith("al_"):
                new[k] = (abs(new[k]) + Fr(1, 4)) if cfg["atype"] == "absolute" else min(abs(new[k]) / 4, Fr(9, 10))
        return new

    def same_outcome(self, cfg, sym_out, real_out):
        return True

    def signature(self, cfg, clause, values, viol):
        names = sorted(set(v[0] for v in viol))
        return f"C10/{cfg['method']}/{cfg['atype']}/{cfg['scoring']}/{'rankdef/' if cfg.get('rankdef') else ''}{'+'.join(names)[:200]}"


if __name__ == "__main__":
    sys.exit(runner.main(C10()))
