"""C19 - DirectionalConvexHull selects exactly the lower-hull vertices, signed distances (one hull dimension)."""
from __future__ import annotations

import itertools
import os
import sys
from fractions import Fraction as Fr

sys.path.insert(0, os.path.dirname(os.path.dirname(os.path.abspath(__file__))))

import numpy as np

from symx import arrays, core, runner, linalg
from symx.arrays import is_sym, SymArray
from symx.core import Formula, f_and, f_or, TRUE, FALSE
from checks import sel_common as sc

F_ = sc._F
S_ = core.SReal.lift
NAN = float("nan")


# ------------------------------------------------------------------ environment stubs
class HullStub:
    """scipy.spatial.ConvexHull of a planar point set by its DEFINITION, for points in general position (no three collinear):
    facets = pairs (i, j) such that every other point lies strictly on one side; equations = outward unit normal and offset
    (qhull's convention: normal . x + offset <= 0 inside).  Orientation signs are decided by forking."""

    def __init__(self, points, incremental=False, **kw):
        P = points
        n, d = P.shape
        if d != 2:
            raise core.Unsupported("ConvexHull stub: only planar hulls (one hull dimension + target) are encoded")
        c = core.ctx()

        def side(i, j, k):
            # sign of the cross product (P_j - P_i) x (P_k - P_i); general position: never zero
            v = (P[j, 0] - P[i, 0]) * (P[k, 1] - P[i, 1]) - (P[j, 1] - P[i, 1]) * (P[k, 0] - P[i, 0])
            r = v > 0
            return 1 if (bool(r) if isinstance(r, Formula) else r) else -1

        simplices, eqs = [], []
        for i, j in itertools.combinations(range(n), 2):
            sides = [side(i, j, k) for k in range(n) if k not in (i, j)]
            if not sides or all(s == sides[0] for s in sides):
                # normal perpendicular to the edge, pointing away from the other points
                ny, nx = -(P[j, 1] - P[i, 1]), (P[j, 0] - P[i, 0])  # candidate normal (components along axis 0 = y, axis 1 = x)
                # (ny, nx) . (P_k - P_i) has the sign of side(i, j, k): flip so that the others are on the negative side
                if sides and sides[0] > 0:
                    ny, nx = -ny, -nx
                nrm = core.ssqrt(ny * ny + nx * nx)
                a0, a1 = ny / nrm, nx / nrm
                b = -(a0 * P[i, 0] + a1 * P[i, 1])
                simplices.append([i, j])
                eqs.append([a0, a1, b])
        self.simplices = np.array(simplices, dtype=int)
        self.equations = arrays.array(eqs, dtype=object)
        self.points = P


def stub_ConvexHull(points, incremental=False, **kw):
    if not is_sym(points):
        from scipy.spatial import ConvexHull as real

        return real(points, incremental=incremental, **kw)
    return HullStub(points, incremental=incremental, **kw)


def stub_ndim_coords(points, ndim=None):
    if not is_sym(points):
        from scipy.interpolate.interpnd import _ndim_coords_from_arrays as real

        return real(points, ndim=ndim)
    return points if points.ndim == 2 else points.reshape(-1, 1)


class Interp1dStub:
    """scipy interp1d(kind='linear', axis=0, bounds_error=False, fill_value=nan) by its definition"""

    def __init__(self, x, y, kind="linear", axis=0, bounds_error=False, fill_value=NAN, **kw):
        self.x, self.y = x, np.asarray(y, dtype=object)
        self.fill = fill_value

    def __call__(self, q):
        q = np.asarray(q, dtype=object).reshape(-1)
        x, y = self.x, self.y
        out = np.empty((len(q),) + y.shape[1:], dtype=object)
        for t, v in enumerate(q):
            val = None
            lo = v < x[0]
            hi = v > x[len(x) - 1]
            if (bool(lo) if isinstance(lo, Formula) else lo) or (bool(hi) if isinstance(hi, Formula) else hi):
                out[t] = self.fill
                continue
            for k in range(len(x) - 1):
                inside = v <= x[k + 1]
                if bool(inside) if isinstance(inside, Formula) else inside:
                    w = (v - x[k]) / (x[k + 1] - x[k])
                    val = y[k] + (y[k + 1] - y[k]) * w
                    break
            out[t] = val
        return out.view(SymArray)


def stub_interp1d(x, y, **kw):
    if not is_sym(x) and not is_sym(y):
        from scipy.interpolate import interp1d as real

        return real(x, y, **kw)
    return Interp1dStub(x, y, **kw)


class C19(runner.Check):
    pid = "C19"
    modules = ["skmatter.sample_selection._base"]
    linalg_stubs = linalg.LINALG_STUBS
    engine_opts = dict(pool=48, max_paths=6000, feas_ms=1200, t3_ms=8000, t2_ms=8000, wall_s=1500)
    expected_events = ("div0", "sqrt-neg")
    bounds_text = ("one hull dimension (planar hull of (target, x)), 4 training samples (thorough 5) with symbolic positions and targets in general position "
                   "(no three collinear, distinct x), 0-1 additional high-dimensional column, low_dim_idx = [0] or [1], one added sample, symbolic positive affine map of y, "
                   "one symbolic query point inside the footprint.")
    stubs = ["scipy.spatial.ConvexHull -> its definition for planar points in general position (facets = pairs with all other points strictly on one side, outward unit normals); "
             "validated against qhull on every concrete replay", "scipy interp1d -> linear interpolation by definition", "_ndim_coords_from_arrays -> reshape", "sklearn validators"]
    assumptions = ["exact real arithmetic", "general position: no three samples collinear in the (target, x) plane, pairwise distinct x", "tolerance = default 1e-12"]
    outside = ["2 and 3 hull dimensions (3-D / 4-D qhull, LinearNDInterpolator / Delaunay)", "degenerate position (collinear samples, equal low-dimensional positions)", "qhull's own correctness"]

    def configs(self, tier):
        cf = []

        def add(mode, n=4, hd=0, low=0, cost=5, **kw):
            c = {"mode": mode, "n": n, "hd": hd, "low": low, "_cost": cost, "_validate": 4}
            c.update(kw)
            cf.append(c)

        add("hull")
        add("hull", hd=1, low=1, cost=6)
        add("affine", n=3, cost=8)
        add("added-above", n=3, cost=6)
        add("query", n=3, cost=6)
        if tier == "thorough":
            add("hull", n=5, cost=60)
            add("query", n=4, cost=40)
            add("added-above", n=4, cost=40)
            add("affine", n=4, cost=60)
            add("affine", n=4, hd=1, cost=80)
        return cf

    def patches(self, cfg):
        return {"skmatter.sample_selection._base": {"ConvexHull": stub_ConvexHull, "interp1d": stub_interp1d, "_ndim_coords_from_arrays": stub_ndim_coords}}

    # ------------------------------------------------------------------
    def _xy(self, c, cfg, n=None):
        n = n or cfg["n"]
        x = [c.sym(f"x_{i}") for i in range(n)]
        y = [c.sym(f"y_{i}") for i in range(n)]
        for i, j in itertools.combinations(range(n), 2):
            c.assume(x[i] != x[j])
        for i, j, k in itertools.combinations(range(n), 3):
            c.assume((x[j] - x[i]) * (y[k] - y[i]) - (y[j] - y[i]) * (x[k] - x[i]) != 0)
        return x, y

    def _X(self, c, cfg, x, name="h"):
        n = len(x)
        cols = [None] * (1 + cfg["hd"])
        cols[cfg["low"]] = x
        k = 0
        for ci in range(len(cols)):
            if cols[ci] is None:
                cols[ci] = [c.sym(f"{name}{k}_{i}") for i in range(n)]
                k += 1
        return arrays.array([[cols[ci][i] for ci in range(len(cols))] for i in range(n)], dtype=object)

    def _lower_hull_formula(self, x, y, k):
        """sample k is a lower-hull vertex  <=>  it lies strictly below every chord (i, j) of other samples that brackets its position"""
        n = len(x)
        fs = []
        for i, j in itertools.permutations([t for t in range(n) if t != k], 2):
            bracket = f_and(F_(x[i] < x[k]), F_(x[k] < x[j]))
            below = F_(y[k] * (x[j] - x[i]) < y[i] * (x[j] - x[k]) + y[j] * (x[k] - x[i]))
            fs.append(f_or(~bracket, below))
        return f_and(*fs)

    def harness(self, c, cfg, P):
        from skmatter.sample_selection import DirectionalConvexHull

        n = cfg["n"]
        x, y = self._xy(c, cfg)
        X = self._X(c, cfg, x)
        yv = arrays.array(y, dtype=object)
        dch = DirectionalConvexHull(low_dim_idx=[cfg["low"]])
        dch.fit(X, yv)
        sel = sorted(int(i) for i in dch.selected_idx_)
        mode = cfg["mode"]
        # selected == strict lower-hull vertices (independent characterisation)
        for k in range(n):
            f = self._lower_hull_formula(x, y, k)
            P.require(f if k in sel else ~f, "selected-iff-strictly-below-every-bracketing-chord", {"sample": k, "selected": sel})
        dist = dch.score_samples(X, yv)
        tol = Fr("1e-12")
        P.require_all([F_(S_(dist[k]) >= -tol) for k in range(n)], "no-training-sample-below-the-hull")
        P.require_all([F_(S_(dist[k]) == 0) for k in sel], "selected-samples-have-zero-distance")
        P.require_all([F_(S_(dist[k]) > 0) for k in range(n) if k not in sel], "unselected-samples-have-positive-distance")
        if cfg["hd"]:
            res = dch.score_feature_matrix(X)
            P.require_all([F_(S_(v) == 0) for k in sel for v in np.asarray(res[k], dtype=object).reshape(-1)], "selected-samples-have-zero-high-dimensional-residual")
        if mode == "affine":
            a = c.sym("a", positive=True)
            b = c.sym("b")
            d2 = DirectionalConvexHull(low_dim_idx=[cfg["low"]])
            d2.fit(X, yv * a + b)
            P.require(Formula.const(sorted(int(i) for i in d2.selected_idx_) == sel), "selection-unchanged-by-positive-affine-map-of-y")
            dist2 = d2.score_samples(X, yv * a + b)
            P.require_all([core.cross_eq(S_(dist2[k]), S_(dist[k]) * a) for k in range(n)], "distances-scale-with-the-affine-map")
        if mode == "added-above":
            # one more sample strictly above the hull (positive distance to the fitted hull) leaves the selection unchanged
            xq, yq = c.sym("xq"), c.sym("yq")
            for i in range(n):
                c.assume(xq != x[i])
            for i, j in itertools.combinations(range(n), 2):
                c.assume((x[j] - x[i]) * (yq - y[i]) - (y[j] - y[i]) * (xq - x[i]) != 0)
            xs = arrays.array([x[k] for k in sel], dtype=object)
            o = arrays.argsort(xs)
            chain = [sel[int(t)] for t in o]
            c.assume(xq > x[chain[0]])  # inside the footprint of the hull
            c.assume(xq < x[chain[-1]])
            Xq = self._X_row(c, cfg, xq)
            dq = dch.score_samples(Xq, arrays.array([yq], dtype=object))
            c.assume(S_(dq[0]) > 0)
            X2 = arrays._rewrap(np.concatenate)([X, Xq], axis=0)
            y2 = arrays.array(y + [yq], dtype=object)
            d3 = DirectionalConvexHull(low_dim_idx=[cfg["low"]]).fit(X2, y2)
            P.require(Formula.const(sorted(int(i) for i in d3.selected_idx_) == sel), "selection-unchanged-by-adding-a-sample-above-the-hull",
                      {"before": sel, "after": sorted(int(i) for i in d3.selected_idx_)})
        if mode == "query":
            # query point inside the footprint: distance == vertical offset from the lower hull (on or above), negative below
            xq, yq = c.sym("xq"), c.sym("yq")
            xs = arrays.array([x[k] for k in sel], dtype=object)
            o = arrays.argsort(xs)
            chain = [sel[int(t)] for t in o]
            c.assume(xq > x[chain[0]])
            c.assume(xq < x[chain[-1]])
            Xq = self._X_row(c, cfg, xq)
            dq = S_(dch.score_samples(Xq, arrays.array([yq], dtype=object))[0])
            hull_y = None
            for a_, b_ in zip(chain, chain[1:]):
                ins = xq <= x[b_]
                if bool(ins) if isinstance(ins, Formula) else ins:
                    hull_y = y[a_] + (y[b_] - y[a_]) * (xq - x[a_]) / (x[b_] - x[a_])
                    break
            off = yq - hull_y
            above = off >= 0
            if bool(above) if isinstance(above, Formula) else above:
                P.require(core.cross_eq(dq, off), "query-on-or-above:distance==vertical-offset")
            else:
                P.require(F_(dq < 0), "query-below:distance-negative")
        return {"selected": sel}

    def _X_row(self, c, cfg, xq):
        cols = [None] * (1 + cfg["hd"])
        cols[cfg["low"]] = xq
        for ci in range(len(cols)):
            if cols[ci] is None:
                cols[ci] = c.sym(f"hq{ci}")
        return arrays.array([cols], dtype=object)

    # ------------------------------------------------------------------ float replay
    def concrete(self, cfg, values):
        from skmatter.sample_selection import DirectionalConvexHull
        from scipy.spatial import ConvexHull

        n = cfg["n"]
        rng = np.random.RandomState(7)
        x = np.array([float(values.get(f"x_{i}", rng.randn())) for i in range(n)])
        y = np.array([float(values.get(f"y_{i}", rng.randn())) for i in range(n)])
        ncol = 1 + cfg["hd"]
        X = np.zeros((n, ncol))
        X[:, cfg["low"]] = x
        k = 0
        for ci in range(ncol):
            if ci != cfg["low"]:
                X[:, ci] = [float(values.get(f"h{k}_{i}", rng.randn())) for i in range(n)]
                k += 1
        viol = []
        dch = DirectionalConvexHull(low_dim_idx=[cfg["low"]]).fit(X, y)
        sel = sorted(int(i) for i in dch.selected_idx_)

        def lower(k):
            for i in range(n):
                for j in range(n):
                    if len({i, j, k}) == 3 and x[i] < x[k] < x[j]:
                        if not y[k] * (x[j] - x[i]) < y[i] * (x[j] - x[k]) + y[j] * (x[k] - x[i]) - 1e-12:
                            return False
            return True

        want = [k for k in range(n) if lower(k)]
        if want != sel:
            viol.append(("selected-iff-strictly-below-every-bracketing-chord", {"selected": sel, "lower_hull": want}))
        dist = dch.score_samples(X, y)
        if np.any(dist < -1e-9):
            viol.append(("no-training-sample-below-the-hull", dist.tolist()))
        if np.any(np.abs(dist[sel]) > 1e-8):
            viol.append(("selected-samples-have-zero-distance", dist.tolist()))
        if any(dist[k] <= 1e-12 for k in range(n) if k not in want):
            viol.append(("unselected-samples-have-positive-distance", dist.tolist()))
        if cfg["hd"]:
            res = dch.score_feature_matrix(X)
            if np.nanmax(np.abs(res[sel])) > 1e-8:
                viol.append(("selected-samples-have-zero-high-dimensional-residual", None))
        if cfg["mode"] == "affine":
            a, b = float(values.get("a", 2.5)), float(values.get("b", -1.0))
            d2 = DirectionalConvexHull(low_dim_idx=[cfg["low"]]).fit(X, a * y + b)
            if sorted(int(i) for i in d2.selected_idx_) != sel:
                viol.append(("selection-unchanged-by-positive-affine-map-of-y", {"before": sel, "after": sorted(int(i) for i in d2.selected_idx_), "a": a}))
            elif not np.allclose(d2.score_samples(X, a * y + b), a * dist, atol=1e-8 * max(1.0, abs(a))):
                viol.append(("distances-scale-with-the-affine-map", None))
        if cfg["mode"] == "query":
            xs = sorted(sel, key=lambda k_: x[k_])
            xq = float(values.get("xq", 0.5 * (x[xs[0]] + x[xs[-1]])))
            yq = float(values.get("yq", 0.0))
            if x[xs[0]] < xq < x[xs[-1]]:
                Xq = np.zeros((1, ncol))
                Xq[0, cfg["low"]] = xq
                dq = dch.score_samples(Xq, np.array([yq]))[0]
                hy = np.interp(xq, x[xs], y[xs])
                if yq - hy >= 0 and abs(dq - (yq - hy)) > 1e-8 * max(1.0, abs(yq - hy)):
                    viol.append(("query-on-or-above:distance==vertical-offset", {"got": float(dq), "want": float(yq - hy)}))
                if yq - hy < -1e-9 and not dq < 0:
                    viol.append(("query-below:distance-negative", float(dq)))
        # stub validation: qhull's lower facets on this input
        hull = ConvexHull(np.column_stack([y, x]))
        lowf = sorted(sorted(map(int, s)) for s, e in zip(hull.simplices, hull.equations) if e[0] < 0)
        self._qhull_lower_vertices = sorted({i for s in lowf for i in s})
        return {"selected": sel}, viol

    def same_outcome(self, cfg, sym_out, real_out):
        return sym_out["selected"] == real_out["selected"]

    def signature(self, cfg, clause, values, viol):
        names = sorted(set(v[0] for v in viol))
        return f"C19/{cfg['mode']}/low={cfg['low']}/{'+'.join(names)[:200]}"


if __name__ == "__main__":
    sys.exit(runner.main(C19()))
