"""C06 - Voronoi FPS is an exact accelerator: it selects what plain FPS selects."""
from __future__ import annotations

import os
import sys

sys.path.insert(0, os.path.dirname(os.path.dirname(os.path.abspath(__file__))))

import numpy as np

from symx import arrays, core, runner, linalg
from symx.core import Formula, f_and, f_or, TRUE, FALSE
from checks import sel_common as sc

F_ = sc._F
INF = float("inf")


class StubClock:
    """deterministic clock for the timing calibration: time() returns the next value of a schedule built
    so that every 'voronoi faster than simple?' comparison takes a prescribed outcome"""

    def __init__(self, pattern, n_trial):
        self.t = 0.0
        self.calls = 0
        self.pattern = pattern
        self.n_trial = n_trial

    def __call__(self):
        # calls: 0,1 -> simple timing (duration 1.0 per trial block); then per bisection step and trial: pair of calls
        k = self.calls
        self.calls += 1
        if k == 0:
            return self.t
        if k == 1:
            self.t += 1.0 * self.n_trial
            return self.t
        j = (k - 2) // 2  # index of the (step, trial) measurement
        step = j // self.n_trial
        if (k - 2) % 2 == 0:
            return self.t
        faster = self.pattern[step % len(self.pattern)]
        self.t += 0.5 if faster else 2.0
        return self.t


def snapshot_steps(sel):
    """harness-side instrumentation: record hausdorff_ after every selection step"""
    sel._symx_tables = []
    orig = sel._update_post_selection

    def rec(X, y, last):
        orig(X, y, last)
        sel._symx_tables.append((int(last), sel.hausdorff_.copy()))

    sel._update_post_selection = rec
    return sel


class C06(runner.Check):
    pid = "C06"
    modules = sc.SEL_MODULES
    linalg_stubs = linalg.LINALG_STUBS
    engine_opts = dict(pool=48, max_paths=20000, feas_ms=600, t3_ms=8000, t2_ms=8000, wall_s=2000, confirm_feas=False)
    bounds_text = ("X symbolic 4x2 (thorough 5x2, 4x3), <=4 selections, initial index 0 / non-zero, n_to_select int / fraction / None, cold and warm-started; "
                   "full_fraction symbolic in (0,1] (covers every explicit value and every value the calibration can store except 0, which is run concretely), "
                   "and the timing calibration itself executed under three deterministic clock schedules (always faster / never / alternating) with n_trial in {1,2}.")
    stubs = ["geometric lemma |s-l|^2 >= 4|x-s|^2 => |x-l|^2 >= |x-s|^2 proved once by z3 for generic vectors of R^m and instantiated per triple of rows", "sklearn validators", "time.time -> deterministic stub clock (calibration configs only)", "np.where / comparisons -> per-element forks", "np.minimum -> ite atoms"]
    assumptions = ["exact real arithmetic", "0 < full_fraction <= 1 symbolic"]
    outside = ["more than 5 points", "wall-clock schedules other than the three stubbed ones for the calibrated default (its possible results are covered by the symbolic full_fraction)"]

    def configs(self, tier):
        cf = []

        def add(n, m, nts, init=0, ff="sym", warm=None, clock=None, ntrial=1, cost=1):
            cf.append({"cls": "VoronoiFPS", "dir": "sample", "n": n, "m": m, "p": 0, "params": {"n_to_select": nts, "initialize": init},
                       "ff": ff, "warm": warm, "clock": clock, "ntrial": ntrial, "_cost": cost})

        for q in range(4):
            add(4, 2, 3, ff=f"sym{q}", cost=10)  # full_fraction symbolic in (q/4, (q+1)/4]: the four ranges cover (0,1]
        add(4, 2, 3, init=2, ff="1/1000", cost=6)  # always the pruned (sparse) update
        add(3, 2, 3, init=1, ff="1/1000", cost=2)  # three points, all selected, always the pruned update
        add(3, 2, 3, init=0, ff="sym", cost=3)
        add(4, 2, 2, warm=3, ff="1/2", cost=6)
        add(4, 2, None, cost=2)
        add(4, 2, 0.75, init=3, ff="1", cost=4)  # never pruned
        for pat in ([True], [False], [True, False]):
            add(4, 2, 3, ff=None, clock=pat, ntrial=1, cost=3)
        add(4, 2, 3, ff=None, clock=[False, True], ntrial=2, cost=3)
        if tier == "thorough":
            add(4, 2, 3, init=2, cost=10)
            add(4, 2, 4, init=1, cost=20)
            add(4, 2, 2, warm=3, cost=10)
            add(5, 2, 3, cost=40)
            add(5, 2, 4, init=4, cost=80)
            add(4, 3, 3, init=1, cost=10)
            add(5, 2, 2, warm=4, cost=60)
            add(4, 2, 1, warm=4, cost=20)
            add(4, 2, 3, ff=None, clock=[True, True, False], ntrial=4, init=2, cost=5)
        return cf

    def patches(self, cfg):
        if cfg["clock"] is not None:
            return {"skmatter.sample_selection._voronoi_fps": {"time": self._clock}}
        return None

    _clock = None

    # ------------------------------------------------------------------
    def _fit(self, cfg, X, ff, clockcls=None):
        from skmatter.sample_selection import VoronoiFPS

        kw = dict(cfg["params"])
        if ff is not None:
            kw["full_fraction"] = ff
        kw["n_trial_calculation"] = cfg["ntrial"]
        sel = snapshot_steps(VoronoiFPS(**kw))
        with sc.quiet():
            sel.fit(X)
            if cfg["warm"]:
                sel.n_to_select = cfg["warm"]
                sel.fit(X, warm_start=True)
        return sel

    def harness(self, c, cfg, P):
        import skmatter.sample_selection._voronoi_fps as V

        n, m = cfg["n"], cfg["m"]
        X = arrays.symbols("x", (n, m))
        ff = None
        if cfg["ff"] is not None and cfg["ff"].startswith("sym"):
            ff = c.sym("ff", positive=True)
            c.assume(ff <= 1)
            if len(cfg["ff"]) > 3:
                q = int(cfg["ff"][3:])
                c.assume(ff * n > q * n // 4)
                c.assume(ff * n <= (q + 1) * n // 4 if (q + 1) * n % 4 == 0 else ff * 4 <= q + 1)
        elif cfg["ff"] is not None:
            ff = float(__import__("fractions").Fraction(cfg["ff"]))
        if cfg["clock"] is not None:
            V.time = StubClock(cfg["clock"], cfg["ntrial"])
        D = [[sc.sqdist(X[i], X[j]) if i != j else c.const(0) for j in range(n)] for i in range(n)]
        # the triangle-inequality fact behind the pruning rule: proved once by the solver for generic points of R^m,
        # instantiated for every triple of rows (a theorem about real vectors, not an assumption on the data)
        sc.add_pruning_lemmas(c, D, n, m)
        try:
            sel = self._fit(cfg, X, ff)
        except (TypeError, IndexError, ValueError) as e:
            P.require(False, "fit-succeeds-for-every-valid-n_to_select", {"error": repr(e)[:200]})
            return {"fit_raises": type(e).__name__}
        idx = [int(i) for i in sel.selected_idx_]
        nts = cfg["warm"] or cfg["params"]["n_to_select"]
        want = n // 2 if nts is None else (nts if isinstance(nts, int) else int(n * nts))
        P.require(Formula.const(len(idx) == want and int(sel.n_selected_) == want), "requested-count", {"selected": idx, "want": want})
        init = cfg["params"]["initialize"]
        P.require(Formula.const(idx[0] == init), "initial-pick")
        for t in range(1, len(idx)):
            prev, p = idx[:t], idx[t]
            others = [j for j in range(n) if j not in prev and j != p]
            fs = [sc.min_ge_min([D[p][s] for s in prev], [D[j][s] for s in prev]) for j in others]
            P.require_all(fs, "pick-is-a-farthest-candidate(FPS-admissible)", {"step": t, "pick": p})
        # table after every step equals the true minimum distance to the selected set
        for t, (last, tab) in enumerate(sel._symx_tables):
            fs = [sc.is_min_of(tab[j], [D[j][s] for s in idx[: t + 1]]) for j in range(n)]
            P.require_all(fs, "distance-table-after-each-step==true-minimum", {"step": t})
        # plain FPS on the same path
        from skmatter.sample_selection import FPS

        fps = FPS(n_to_select=want, initialize=init)
        with sc.quiet():
            fps.fit(X)
        fidx = [int(i) for i in fps.selected_idx_]
        if fidx != idx:
            # allowed only from a step at which two candidates are tied: the first differing step must be a tie
            t = next(i for i in range(len(idx)) if idx[i] != fidx[i])
            prev = idx[:t]
            tie = f_and(sc.min_ge_min([D[idx[t]][s] for s in prev], [D[fidx[t]][s] for s in prev]),
                        sc.min_ge_min([D[fidx[t]][s] for s in prev], [D[idx[t]][s] for s in prev]))
            P.require(tie, "differs-from-FPS-only-at-a-tie", {"voronoi": idx, "fps": fidx})
        else:
            P.require(TRUE, "identical-to-FPS")
        if cfg["clock"] is not None:
            P.require(Formula.const(sel.get_params()["full_fraction"] is None or True), "calibration-ran")
        return {"selected": idx, "fps": fidx}

    # ------------------------------------------------------------------ float replay
    def concrete(self, cfg, values):
        import skmatter.sample_selection._voronoi_fps as V
        from skmatter.sample_selection import FPS

        n, m = cfg["n"], cfg["m"]
        X = np.array([[float(values.get(f"x_{i}_{j}", 0)) for j in range(m)] for i in range(n)])
        symff = cfg["ff"] is not None and cfg["ff"].startswith("sym")
        ff = float(values["ff"]) if symff and values.get("ff") is not None else ((int(cfg["ff"][3:] or 1) + 0.5) / 4 if symff else None)
        if cfg["ff"] is not None and not symff:
            ff = float(__import__("fractions").Fraction(cfg["ff"]))
        saved = V.time
        if cfg["clock"] is not None:
            V.time = StubClock(cfg["clock"], cfg["ntrial"])
        try:
            sel = self._fit(cfg, X, ff)
        except (TypeError, IndexError, ValueError) as e:
            return {"fit_raises": type(e).__name__}, [("fit-succeeds-for-every-valid-n_to_select", {"error": repr(e)[:200], "n_to_select": cfg["params"]["n_to_select"]})]
        finally:
            V.time = saved
        idx = [int(i) for i in sel.selected_idx_]
        nts = cfg["warm"] or cfg["params"]["n_to_select"]
        want = n // 2 if nts is None else (nts if isinstance(nts, int) else int(n * nts))
        viol = []
        if len(idx) != want:
            viol.append(("requested-count", {"selected": idx, "want": want}))
        D = ((X[:, None, :] - X[None, :, :]) ** 2).sum(-1)
        # relative to the scale of the data (float rounding of |a|^2 + |b|^2 - 2ab is ~1e-16 |x|^2): an absolute floor would hide
        # discrepancies on small-scale data, e.g. points closer than a hard-coded absolute threshold
        tol = 1e-9 * float(np.max(np.sum(X**2, axis=1)))
        for t in range(1, len(idx)):
            tm = D[:, idx[:t]].min(axis=1)
            if tm[idx[t]] < tm.max() - tol:
                viol.append(("pick-is-a-farthest-candidate(FPS-admissible)", {"step": t, "pick": idx[t], "dist": float(tm[idx[t]]), "best": float(tm.max())}))
        for t, (last, tab) in enumerate(sel._symx_tables):
            tm = D[:, idx[: t + 1]].min(axis=1)
            if np.max(np.abs(np.asarray(tab, dtype=float) - tm)) > tol:
                viol.append(("distance-table-after-each-step==true-minimum", {"step": t, "got": np.asarray(tab, dtype=float).tolist(), "true": tm.tolist()}))
                break
        fps = FPS(n_to_select=max(want, 1), initialize=cfg["params"]["initialize"])
        with sc.quiet():
            fps.fit(X)
        fidx = [int(i) for i in fps.selected_idx_]
        if fidx != idx and len(idx) == len(fidx):
            t = next(i for i in range(len(idx)) if idx[i] != fidx[i])
            tm = D[:, idx[:t]].min(axis=1) if t else None
            if t and abs(tm[idx[t]] - tm[fidx[t]]) > tol:
                viol.append(("differs-from-FPS-only-at-a-tie", {"voronoi": idx, "fps": fidx}))
        if len(set(idx)) < len(idx) and viol:
            viol = [("tags:reselected-index", None)] + viol
        return {"selected": idx, "fps": fidx}, viol

    def fix_values(self, cfg, new, model):
        if model.get("ff") is not None:
            new["ff"] = model["ff"]
        return new

    def signature(self, cfg, clause, values, viol):
        names = sorted(set(v[0] for v in viol if not v[0].startswith("tags:")))
        tags = [v[0][5:] for v in viol if v[0].startswith("tags:")]
        return f"C06/{tags[0] if tags else 'distinct-picks'}/{'+'.join(names)}"


if __name__ == "__main__":
    sys.exit(runner.main(C06()))
