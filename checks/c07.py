"""C07 - CUR and PCov-CUR select by leverage score on the orthogonalised residual."""
from __future__ import annotations
from fractions import Fraction as Fr

import os
import sys

sys.path.insert(0, os.path.dirname(os.path.dirname(os.path.abspath(__file__))))

import numpy as np

from symx import arrays, core, runner, linalg
from symx.arrays import SymArray
from symx.core import Formula, f_and, f_or, TRUE, FALSE
from checks import sel_common as sc
from checks import cur_stubs

F_ = sc._F


def residual_after(X, picks, direction):
    """independent oracle: X with the span of the selected columns (features) / rows (samples) projected out, sequentially"""
    R = X.copy() if direction == "feature" else X.T.copy()
    for p in picks:
        col = R[:, p].reshape(-1, 1)
        nrm = (col.T @ col)[0, 0]
        R = R - col @ (col.T @ R) / nrm
    return R if direction == "feature" else R.T


class C07(runner.Check):
    pid = "C07"
    modules = sc.SEL_MODULES
    linalg_stubs = linalg.LINALG_STUBS
    engine_opts = dict(pool=56, max_paths=4000, feas_ms=1200, t3_ms=8000, t2_ms=8000, wall_s=1500)
    expected_events = ("div0", "singular", "sqrt-neg")
    bounds_text = ("CUR in both directions and PCov-CUR (sample direction), X symbolic 3x3 (thorough 3x4 / 4x3), y symbolic (1 target), k in {1,2}, recompute_every in {0,1,2,3}, "
                   "<= 3 selections, mixing symbolic in [0,1): residual matrix, residual targets, the matrix handed to svds/eigsh/eigh at every refresh, the refresh schedule, "
                   "the score vector built from the returned vectors (top-k, right axis), every pick an arg-max of the last refreshed scores among unselected items.")
    stubs = ["scipy svds / eigsh / eigh -> uninterpreted outputs with contract (trusted: that they return the top singular / eigen vectors); every call is logged with its argument",
             "np.linalg.pinv / lstsq -> closed forms", "sklearn validators"]
    assumptions = ["exact real arithmetic", "tolerance hyper-parameter 0 in symbolic runs (a selected item of norm exactly 0 ends the path), or 1/4 with the hypothesis that every projected-out item has residual norm >= 1/4", "decomposed matrices non-zero, pick scores positive"]
    outside = ["what svds/eigsh/eigh compute (trusted by contract, validated on the real routines in each replay)", "sample CUR on X == feature CUR on X^T and PCov-CUR(mixing=1) == CUR as equality "
               "of *selections* (different routines are different uninterpreted functions; only the arguments are compared)", "PCov-CUR feature direction (eigen-decomposition of a free X^T X)", "k = 3, > 3 selections"]

    def configs(self, tier):
        cf = []

        def add(cls, d, n, m, nsel, every=1, k=1, p=0, cost=3, tol=None):
            cf.append({"cls": cls, "dir": d, "n": n, "m": m, "p": p, "params": {"n_to_select": nsel, "recompute_every": every, "k": k}, "_cost": cost})
            if tol:
                cf[-1]["tol"] = tol

        add("CUR", "feature", 3, 3, 2)
        add("CUR", "sample", 3, 3, 2)
        add("CUR", "feature", 3, 3, 2, every=2, cost=5)
        add("CUR", "feature", 3, 3, 3, every=0, cost=2)
        add("CUR", "sample", 3, 3, 2, every=3, cost=4)
        add("CUR", "feature", 3, 3, 2, k=2, cost=4)
        add("PCovCUR", "sample", 3, 2, 2, p=1, cost=6)
        add("PCovCUR", "sample", 3, 2, 2, p=1, k=2, cost=6)
        # positive tolerance 1/4: an item whose residual norm is >= the tolerance must be projected out exactly
        add("CUR", "feature", 3, 3, 2, tol="1/4", cost=5)
        add("CUR", "sample", 3, 3, 2, tol="1/4", cost=5)
        if tier == "thorough":
            add("CUR", "feature", 3, 3, 3, every=2, cost=60)
            add("CUR", "sample", 3, 3, 3, every=3, cost=30)
            add("CUR", "feature", 3, 4, 3, cost=30)
            add("CUR", "sample", 4, 3, 3, every=2, cost=30)
            add("CUR", "feature", 3, 4, 3, every=3, k=2, cost=30)
            add("PCovCUR", "sample", 3, 2, 2, p=1, every=2, cost=20)  # (3 picks from a rank-2 matrix exhaust the residual on every path: vacuous, removed)
            add("PCovCUR", "sample", 4, 2, 2, p=1, cost=30)
        return cf

    def patches(self, cfg):
        return cur_stubs.patches()

    # ------------------------------------------------------------------
    def harness(self, c, cfg, P):
        cur_stubs.reset()
        X, y = sc.sym_inputs(cfg)
        tol = Fr(cfg["tol"]) if cfg.get("tol") else 0
        over = {"tolerance": tol}
        mixing = None
        if cfg["cls"] == "PCovCUR":
            mixing = c.sym("mix", nonneg=True)
            c.assume(mixing < 1)
            over["mixing"] = mixing
        sel = sc.record_scores(sc.make_selector(cfg, **over))
        above_tol = []  # filled after the fit: every orthogonalised item had a residual norm >= the tolerance
        P.hyp = lambda: f_and(*(list(cur_stubs.NONZERO) + [F_(s > 0) for (_, s, _) in sel._symx_pick_scores] + above_tol))
        # snapshot the score vector at every pick (harness-side instrumentation)
        pis = []
        orig = sel._get_best_new_selection

        def rec(scorer, Xa, ya):
            pis.append(np.array(sel.pi_, dtype=object).copy())
            return orig(scorer, Xa, ya)

        sel._get_best_new_selection = rec
        with sc.quiet():
            sel.fit(X, y)
        idx = [int(i) for i in sel.selected_idx_]
        d, every, k = cfg["dir"], cfg["params"]["recompute_every"], cfg["params"]["k"]
        ncand = X.shape[1] if d == "feature" else X.shape[0]
        calls = list(cur_stubs.CALLS)
        # expected refresh schedule: initial scores from X, then after every `every`-th selection (never for 0)
        refresh_after = [t for t in range(1, len(idx) + 1) if every != 0 and t % every == 0]
        P.require(Formula.const(len(calls) == 1 + len(refresh_after)), "refresh-schedule(number of decompositions)", {"calls": len(calls), "expected": 1 + len(refresh_after)})
        res = {0: X}
        for t in range(1, len(idx) + 1):
            res[t] = residual_after(X, idx[:t], d) if every != 0 else X
        yres = {}
        if cfg["cls"] == "PCovCUR":
            yres[0] = y
            for t in range(1, len(idx) + 1):
                if every == 0:
                    yres[t] = y
                else:
                    Xs, ys = X[idx[:t]], y[idx[:t]]
                    w = linalg.pinv(Xs) @ ys  # least squares fitted on the selected samples only
                    yres[t] = y - X @ w
        if tol and every != 0:
            for t in range(1, len(idx) + 1):
                item = res[t - 1][:, idx[t - 1]] if d == "feature" else res[t - 1][idx[t - 1], :]
                above_tol.append(F_(arrays.norm(item.reshape(-1, 1)) >= tol))  # the same norm atom the code compares with the tolerance
        expected_t = [0] + refresh_after
        for ci, call in enumerate(calls[: len(expected_t)]):
            t = expected_t[ci]
            M = call[1]
            if cfg["cls"] == "CUR":
                P.require_all(sc.arr_eq(M, res[t]), "decomposed-matrix==projection-residual", {"refresh": ci, "after_picks": t})
                want_vec = "vh" if d == "feature" else "u"
                P.require(Formula.const(call[0] == "svds" and call[2] == k and call[3] == want_vec), "decomposition-routine-and-vector-side", {"call": [call[0], call[2], str(call[3])]})
            else:
                Kt = mixing * (res[t] @ res[t].T) + (1 - mixing) * (yres[t] @ yres[t].T)
                P.require_all(sc.arr_eq(M, Kt), "decomposed-matrix==modified-Gram-of-residuals", {"refresh": ci, "after_picks": t})
        # residual exposed after the fit
        if every != 0:
            P.require_all(sc.arr_eq(sel.X_current_, res[len(idx)]), "X_current_==projection-residual")
            V = sel.X_current_ if d == "feature" else sel.X_current_.T
            Xo = X if d == "feature" else X.T
            fs = []
            for p_ in idx:
                for j in range(V.shape[1]):
                    fs.append(F_((Xo[:, p_] * V[:, j]).sum() == 0))
            P.require_all(fs, "X_current_-orthogonal-to-selected-items")
            if cfg["cls"] == "PCovCUR":
                P.require_all(sc.arr_eq(sel.y_current_, yres[len(idx)]), "y_current_==y-minus-fit-on-selected-samples")
        # scores at each pick: sum of squares over the top-k returned vectors, zeroed where the code zeroes, and the pick is an arg-max
        for step, pi in enumerate(pis):
            last_refresh = max([t for t in expected_t if t <= step])
            ci = expected_t.index(last_refresh)
            if ci >= len(calls):
                continue
            vecs = self._returned_vectors(c, calls[ci], ncand, k, d)
            fs = []
            for j in range(ncand):
                sq = None
                for i in range(k):
                    t2 = vecs[i][j] * vecs[i][j]
                    sq = t2 if sq is None else sq + t2
                zeroed = j in idx[last_refresh:step] or (j in idx[:step] and every == 0) or (last_refresh > 0 and j == idx[last_refresh - 1])
                fs.append(F_(pi[j] == (0 if zeroed else sq)))
            P.require_all(fs, "score==sum-of-squares-over-top-k-vectors-of-last-refresh", {"step": step})
            p_ = idx[step]
            P.require_all([F_(pi[p_] >= pi[j]) for j in range(ncand) if j not in idx[:step]], "pick-is-argmax-among-unselected", {"step": step})
        return {"selected": idx}

    def _returned_vectors(self, c, call, ncand, k, d):
        """the atoms the stub returned for this call, leading vector first (re-created through the atom cache)"""
        A = call[1]
        name = {"svds": "svds_v" if d == "feature" else "svds_u", "eigsh": "eigsh", "eigh": "eigh"}[call[0]]
        nvec = call[2]
        args = cur_stubs._flat(A)
        out = []
        for i in range(k):
            row = []
            for j in range(ncand):
                line = cur_stubs._flat(np.asarray(A[:, j] if (call[0] == "svds" and d == "feature") else A[j, :]))
                if i == 0 and cur_stubs._ident_zero(line):
                    row.append(c.const(0))
                else:
                    row.append(c.uf(f"{name}_{i}_{j}", args))
            out.append(row)
        return out

    # ------------------------------------------------------------------ float replay
    def concrete(self, cfg, values):
        X, y = sc.float_inputs(cfg, values)
        over = {}
        if cfg.get("tol"):
            over["tolerance"] = float(Fr(cfg["tol"]))
        if cfg["cls"] == "PCovCUR":
            over["mixing"] = float(values.get("mix", 0.5))
        d, every, k = cfg["dir"], cfg["params"]["recompute_every"], cfg["params"]["k"]
        sel = sc.make_selector(cfg, **over)
        pis = []
        orig = sel._get_best_new_selection

        def rec(scorer, Xa, ya):
            pis.append(np.array(sel.pi_).copy())
            return orig(scorer, Xa, ya)

        sel._get_best_new_selection = rec
        viol = []
        with cur_stubs.recording() as rc:
            with sc.quiet():
                sel.fit(X, y)
        self._contract_bad = list(rc.bad)
        idx = [int(i) for i in sel.selected_idx_]
        V = X if d == "feature" else X.T
        ncand = V.shape[1]

        def resid(t):
            if every == 0 or t == 0:
                return V.copy()
            S = V[:, idx[:t]]
            return V - S @ np.linalg.pinv(S) @ V

        def yres(t):
            if every == 0 or t == 0:
                return y
            Xs, ys = X[idx[:t]], y[idx[:t]]
            return y - X @ (np.linalg.pinv(Xs) @ ys)

        if cfg.get("tol") and every != 0:
            # the clauses are stated for items whose residual norm is at least the tolerance when they are projected out
            for t in range(1, len(idx) + 1):
                if np.linalg.norm(resid(t - 1)[:, idx[t - 1]]) < float(Fr(cfg["tol"])) * (1 + 1e-9):
                    return {"selected": idx}, []
        if every != 0:
            R = resid(len(idx))
            got = sel.X_current_ if d == "feature" else sel.X_current_.T
            if not np.allclose(got, R, atol=1e-7 * max(1.0, np.abs(V).max())):
                viol.append(("X_current_==projection-residual", float(np.abs(got - R).max())))
        tol = 1e-6
        for step, pi in enumerate(pis):
            last = max([t for t in [0] + [t for t in range(1, len(idx) + 1) if every != 0 and t % every == 0] if t <= step])
            R = resid(last)
            if cfg["cls"] == "CUR":
                U, s, Vt = np.linalg.svd(R, full_matrices=False)
                if len(s) > k and abs(s[k - 1] - s[k]) < 1e-8 * max(1.0, s[0]):
                    continue
                want = (Vt[:k] ** 2).sum(axis=0)
            else:
                a = over["mixing"]
                Rx = R if d == "feature" else R.T  # (samples x features) residual
                Yr = yres(last)
                Kt = a * Rx @ Rx.T + (1 - a) * Yr @ Yr.T
                w, Q = np.linalg.eigh(Kt)
                if len(w) > k and abs(w[-k] - w[-k - 1]) < 1e-8 * max(1.0, abs(w[-1])):
                    continue
                want = (Q[:, -k:] ** 2).sum(axis=1)
            want = want.copy()
            zero = [j for j in range(ncand) if j in idx[last:step] or (j in idx[:step] and every == 0) or (last > 0 and j == idx[last - 1])]
            want[zero] = 0.0
            cand = [j for j in range(ncand) if j not in idx[:step]]
            if want[idx[step]] < max(want[j] for j in cand) - tol:
                viol.append(("pick-maximises-documented-score-of-last-refresh", {"step": step, "pick": idx[step], "score": float(want[idx[step]]), "best": float(max(want[j] for j in cand))}))
            if np.max(np.abs(np.asarray(pi, dtype=float) - want)) > 1e-5:
                viol.append(("score==sum-of-squares-over-top-k-vectors-of-last-refresh", {"step": step, "got": np.asarray(pi, dtype=float).tolist(), "want": want.tolist()}))
        return {"selected": idx}, viol

    def same_outcome(self, cfg, sym_out, real_out):
        return not getattr(self, "_contract_bad", [])

    def fix_values(self, cfg, new, model):
        if "mix" in new:
            new["mix"] = model.get("mix") if model.get("mix") is not None else core.Fraction(1, 2)
        return new

    def signature(self, cfg, clause, values, viol):
        names = sorted(set(v[0] for v in viol))
        return f"C07/{cfg['cls']}/{cfg['dir']}/every={cfg['params']['recompute_every']}/k={cfg['params']['k']}/{'+'.join(names)[:200]}"


if __name__ == "__main__":
    sys.exit(runner.main(C07()))
