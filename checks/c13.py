"""C13 - reconstruction measures vanish on contained information, isometry invariant (factor family; closed-form estimator)."""
from __future__ import annotations

import os
import sys
from fractions import Fraction as Fr

sys.path.insert(0, os.path.dirname(os.path.dirname(os.path.abspath(__file__))))

import numpy as np

from symx import arrays, core, runner, linalg
from symx.arrays import is_sym, SymArray
from symx.core import Formula, f_and, f_or, TRUE, FALSE
from checks import sel_common as sc
from checks import frames
from checks.c14 import fro2
from checks.c18 import stub_procrustes, LinRegStub

F_ = sc._F
S_ = core.SReal.lift


class LSEstimator:
    """user-supplied estimator (the API accepts any object with fit/predict): unregularised least squares without intercept,
    by the normal equations on symbolic data and numpy.linalg.lstsq on floats"""

    def fit(self, X, Y):
        if is_sym(X) or is_sym(Y):
            self.W = linalg.pinv(X) @ Y
        else:
            self.W = np.linalg.lstsq(X, Y, rcond=None)[0]
        return self

    def predict(self, X):
        return X @ self.W


def sq(v):
    v = S_(v)
    return v * v


class C13(runner.Check):
    pid = "C13"
    modules = ["skmatter.metrics._reconstruction_measures", "skmatter.preprocessing._data", "skmatter.linear_model._base"]
    linalg_stubs = linalg.LINALG_STUBS
    engine_opts = dict(pool=56, max_paths=3000, feas_ms=1500, t3_ms=12000, t2_ms=12000, wall_s=1500)
    expected_events = ("singular", "sqrt-neg", "div0", "scaler-rejects")
    bounds_text = ("training block on the factor family (4 rows: X_train = U diag(s) Vx^T with the centred Hadamard left frame, Y_train = U diag(g) Vy^T + remainder or X_train A), "
                   "1-2 fully symbolic test rows, feature counts (X, Y) in {(2,1), (2,2), (2,3)}; real StandardFlexibleScaler, user-supplied least-squares estimator (closed form), "
                   "explicit train / test index choices (disjoint, overlapping, identical); GRE, LRE (all training points as neighbours) and GRD; source rotations from the library; "
                   "uniform rescaling and shift of either space by symbolic amounts.")
    stubs = ["np.linalg.pinv -> closed form", "np.linalg.svd / orthogonal_procrustes (inside OrthogonalRegression for GRD) -> verified frames / definition",
             "StandardFlexibleScaler runs unmodified (decided in C11)", "joblib Parallel(n_jobs=None) runs unmodified"]
    assumptions = ["exact real arithmetic", "the estimator is the user-supplied least-squares estimator, not the default Ridge2FoldCV", "training variance > atol (scaler accepts)",
                   "training block on the factor family: frames inside the library, s > 0"]
    outside = ["the default estimator Ridge2FoldCV inside the measures", "target-space rotations", "LRE with fewer neighbours than training points", "default random train/test split (index choice is data independent)"]

    def configs(self, tier):
        cf = []

        def add(mode, p=1, tr=(0, 1, 2, 3), te=(4, 5), Vx="R35", Vy="I", cost=3, m=2, **kw):
            c = {"mode": mode, "m": m, "p": p, "train": list(tr), "test": list(te), "Vx": Vx, "Vy": Vy, "_cost": cost}
            c.update(kw)
            cf.append(c)

        add("contained", p=2)
        add("rms", te=(4, 2))
        add("rms", te=(1, 2, 3), remainder=True, cost=4)  # test rows inside the family block: stays tractable if an implementation exchanges the two index sets
        add("rms", measure="lre", te=(4,), cost=5)
        add("rms", measure="grd", p=2, Vy="R513", te=(4, 1), cost=6)
        add("train-bound", te=(0, 1, 2, 3), p=2, Vy="R513", remainder=True, cost=4)
        add("rotation", Q="R513", te=(4, 0), cost=5)
        add("affine", te=(4,), cost=6)
        add("lre==gre", te=(4, 3), cost=6)
        add("lre==gre", te=(4,), remainder=True, cost=8)  # targets not linear in X: the local and the global fit have non-zero residuals
        add("grd-zero", p=2, Q="R513", te=(4,), cost=6)
        for p in (1, 3):
            add("defined", p=p, Vy="I" if p == 1 else "R35_01", te=(4,), cost=5)
        add("defined", m=3, p=2, Vx="H122", Vy="R35", te=(4,), cost=6)  # X wider than Y with more than one target
        if tier == "thorough":
            add("contained", p=3, Vx="F35", te=(4, 5, 0), cost=6)
            add("rotation", Q="F35", p=2, Vy="R35", te=(4, 5), remainder=True, cost=8)
            add("affine", p=2, Vy="R35", te=(4, 2), remainder=True, cost=10)
            add("rms", measure="grd", p=2, Vy="R35", te=(4, 5), remainder=True, cost=8)
            add("lre==gre", p=2, Vy="R513", te=(4, 5), remainder=True, cost=10)
        return cf

    def patches(self, cfg):
        return {"skmatter.linear_model._base": {"orthogonal_procrustes": stub_procrustes, "LinearRegression": LinRegStub}}

    # ------------------------------------------------------------------
    def _data(self, c, cfg, sym=True, values=None):
        m, p = cfg["m"], cfg["p"]
        QL, cols = frames.left_frame_cols(4, 3)
        Vx, Vy = linalg.frame(m, cfg["Vx"]), linalg.frame(p, cfg["Vy"])
        ntest = max(cfg["test"] + cfg["train"]) + 1 - 4
        if sym:
            mm, tt = linalg._matmul, linalg._T
            hints = [Vx, Vy]
            if cfg.get("Q"):
                Qf = linalg.frame(m, cfg["Q"])
                hints += [mm(tt(Qf), Vx), mm(Qf, Vx), Qf, tt(Qf)]
            linalg.HINTS[:] = hints
            U = arrays.exact(frames._cols(QL, cols))  # 4 x 3, orthonormal, orthogonal to the ones vector
            s = [c.sym(f"s_{i}", positive=True) for i in range(m)]
            S = arrays.zeros((3, m))
            for i in range(m):
                S[i, i] = s[i]
            Xtr = U @ S @ arrays.exact(Vx).T
            Xte = arrays.symbols("xt", (ntest, m)) if ntest else arrays.zeros((0, m))
            X = arrays._rewrap(np.concatenate)([Xtr, Xte], axis=0)
            if cfg["mode"] == "contained":
                A = arrays.symbols("a", (m, p))
                Y = X @ A
            elif cfg["mode"] == "grd-zero":
                Y = X @ arrays.exact(linalg.frame(m, cfg["Q"]))
            else:
                g = [c.sym(f"g_{i}") for i in range(min(3, p))]
                G = arrays.zeros((3, p))
                for i in range(min(3, p)):
                    G[i, i] = g[i]
                Ytr = U @ G @ arrays.exact(Vy).T
                if cfg.get("remainder"):
                    h = U[:, 2].reshape(4, 1)
                    Ytr = Ytr + h @ arrays.array([[c.sym(f"q_{j}") for j in range(p)]], dtype=object)
                Yte = arrays.symbols("yt", (ntest, p)) if ntest else arrays.zeros((0, p))
                Y = arrays._rewrap(np.concatenate)([Ytr, Yte], axis=0)
            return X, Y
        U = np.array(frames._cols(QL, cols), dtype=float)
        rng = np.random.RandomState(12)
        S = np.zeros((3, m))
        for i in range(m):
            S[i, i] = float(values.get(f"s_{i}", 1.0 + 0.8 * i))
        Xtr = U @ S @ np.array(Vx, dtype=float).T
        Xte = np.array([[float(values.get(f"xt_{i}_{j}", rng.randn())) for j in range(m)] for i in range(ntest)]).reshape(ntest, m)
        X = np.concatenate([Xtr, Xte], axis=0)
        if cfg["mode"] == "contained":
            A = np.array([[float(values.get(f"a_{i}_{j}", rng.randn())) for j in range(p)] for i in range(m)])
            Y = X @ A
        elif cfg["mode"] == "grd-zero":
            Y = X @ np.array(linalg.frame(m, cfg["Q"]), dtype=float)
        else:
            G = np.zeros((3, p))
            for i in range(min(3, p)):
                G[i, i] = float(values.get(f"g_{i}", 0.9 - 0.6 * i))
            Ytr = U @ G @ np.array(Vy, dtype=float).T
            if cfg.get("remainder"):
                Ytr = Ytr + U[:, 2].reshape(4, 1) @ np.array([[float(values.get(f"q_{j}", 0.3 + j)) for j in range(p)]])
            Yte = np.array([[float(values.get(f"yt_{i}_{j}", rng.randn())) for j in range(p)] for i in range(ntest)]).reshape(ntest, p)
            Y = np.concatenate([Ytr, Yte], axis=0)
        return X, Y

    def _measures(self):
        from skmatter.metrics import (pointwise_global_reconstruction_error as pgre, global_reconstruction_error as gre,
                                      pointwise_local_reconstruction_error as plre, local_reconstruction_error as lre,
                                      pointwise_global_reconstruction_distortion as pgrd, global_reconstruction_distortion as grd)

        return pgre, gre, plre, lre, pgrd, grd

    def harness(self, c, cfg, P):
        try:
            return self._harness(c, cfg, P)
        except ValueError as e:
            if "zero variance" in str(e):
                c.event("scaler-rejects", "training variance below atol")  # precondition of the measures
            raise

    def _harness(self, c, cfg, P):
        pgre, gre, plre, lre, pgrd, grd = self._measures()
        X, Y = self._data(c, cfg)
        tr, te = np.array(cfg["train"]), np.array(cfg["test"])
        kw = dict(train_idx=tr, test_idx=te)
        E = LSEstimator
        mode = cfg["mode"]
        if mode == "contained":
            pw = pgre(X, Y, estimator=E(), **kw)
            P.require_all([core.cross_eq(sq(v), 0) for v in pw], "GRE(X, XA)==0")
        elif mode == "rms":
            meas = cfg.get("measure", "gre")
            if meas == "lre":
                pw, gl = plre(X, Y, len(tr), estimator=E(), **kw), lre(X, Y, len(tr), estimator=E(), **kw)
            elif meas == "grd":
                pw, gl = pgrd(X, Y, estimator=E(), **kw), grd(X, Y, estimator=E(), **kw)
            else:
                pw, gl = pgre(X, Y, estimator=E(), **kw), gre(X, Y, estimator=E(), **kw)
            P.require_all([F_(S_(v) >= 0) for v in pw], "pointwise>=0")
            P.require(core.cross_eq(sq(gl) * len(te), fro2(np.asarray(pw, dtype=object))), "global==RMS-of-pointwise(same index choice)", {"measure": meas})
            P.require(F_(S_(gl) >= 0), "global>=0")
        elif mode == "train-bound":
            from skmatter.preprocessing import StandardFlexibleScaler

            gl = S_(gre(X, Y, estimator=E(), **kw))
            Xs = StandardFlexibleScaler().fit(X[tr]).transform(X[tr])
            Ys = StandardFlexibleScaler().fit(Y[tr]).transform(Y[tr])
            Yh = E().fit(Xs, Ys).predict(Xs)
            res2, ys2, yh2 = fro2(Ys - Yh), fro2(Ys), fro2(Yh)
            ntr = len(tr)
            # certificate, each identity decided by normal form and then used as a lemma: GRE^2 n == |residual|^2, |Y_scaled|^2 == n (total
            # variance one), |Y|^2 - |residual|^2 == |prediction|^2 (a sum of squares); hence GRE^2 = 1 - |prediction|^2 / n <= 1
            for lhs, rhs, name in ((gl * gl * ntr, res2, "GRE^2*n==|residual|^2"), (ys2, c.const(ntr), "|Y_scaled|^2==n"), (ys2 - res2, yh2, "|Y|^2-|residual|^2==|prediction|^2")):
                if P.require(core.cross_eq(lhs, rhs), "training-set-GRE<=1:certificate:" + name):
                    c._add_pc(core.cross_eq_folded(lhs, rhs))
            P.require(F_(gl * gl <= 1), "training-set-GRE<=1")
        elif mode == "rotation":
            Q = arrays.exact(linalg.frame(cfg["m"], cfg["Q"]))
            a, b = pgre(X, Y, estimator=E(), **kw), pgre(X @ Q, Y, estimator=E(), **kw)
            P.require_all([core.cross_eq(sq(u), sq(v)) for u, v in zip(a, b)], "GRE-invariant-under-source-rotation")
            a, b = plre(X, Y, len(tr), estimator=E(), **kw), plre(X @ Q, Y, len(tr), estimator=E(), **kw)
            P.require_all([core.cross_eq(sq(u), sq(v)) for u, v in zip(a, b)], "LRE-invariant-under-source-rotation")
        elif mode == "affine":
            k1, k2 = c.sym("kx", positive=True), c.sym("ky", positive=True)
            tx, ty = arrays.symbols("tx", cfg["m"]), arrays.symbols("ty", cfg["p"])
            a = pgre(X, Y, estimator=E(), **kw)
            b = pgre(X * k1 + tx, Y * k2 + ty, estimator=E(), **kw)
            P.require_all([core.cross_eq(sq(u), sq(v)) for u, v in zip(a, b)], "GRE-invariant-under-rescaling-and-shift-of-either-space")
        elif mode == "lre==gre":
            a, b = pgre(X, Y, estimator=E(), **kw), plre(X, Y, len(tr), estimator=E(), **kw)
            P.require_all([core.cross_eq(sq(u), sq(v)) for u, v in zip(a, b)], "LRE(all neighbours)==pointwise-GRE")
        elif mode == "grd-zero":
            pw = pgrd(X, Y, estimator=E(), **kw)
            P.require_all([core.cross_eq(sq(v), 0) for v in pw], "GRD(X, XQ)==0")
        elif mode == "defined":
            for fn, nm in ((pgre, "GRE"), (pgrd, "GRD")):
                try:
                    pw = fn(X, Y, estimator=E(), **kw)
                    ok = len(pw) == len(te)
                    err = None
                except ValueError as e:
                    if "zero variance" in str(e):
                        raise
                    ok, err = False, repr(e)[:160]
                P.require(Formula.const(ok), f"{nm}-defined-for-any-pair-of-feature-dimensions", {"X": cfg["m"], "Y": cfg["p"], "error": err})
        return {"ok": True}

    # ------------------------------------------------------------------ float replay
    def concrete(self, cfg, values):
        pgre, gre, plre, lre, pgrd, grd = self._measures()
        X, Y = self._data(None, cfg, sym=False, values=values)
        tr, te = np.array(cfg["train"]), np.array(cfg["test"])
        kw = dict(train_idx=tr, test_idx=te)
        E = LSEstimator
        mode = cfg["mode"]
        viol = []
        tol = 1e-7

        def same(a, b):
            a, b = np.asarray(a, dtype=float), np.asarray(b, dtype=float)
            return a.shape == b.shape and np.allclose(a, b, atol=tol * max(1.0, np.abs(a).max() if a.size else 1.0))

        try:
            if mode == "contained":
                pw = pgre(X, Y, estimator=E(), **kw)
                if np.max(np.abs(pw)) > 1e-6:
                    viol.append(("GRE(X, XA)==0", np.asarray(pw).tolist()))
            elif mode == "rms":
                meas = cfg.get("measure", "gre")
                if meas == "lre":
                    pw, gl = plre(X, Y, len(tr), estimator=E(), **kw), lre(X, Y, len(tr), estimator=E(), **kw)
                elif meas == "grd":
                    pw, gl = pgrd(X, Y, estimator=E(), **kw), grd(X, Y, estimator=E(), **kw)
                else:
                    pw, gl = pgre(X, Y, estimator=E(), **kw), gre(X, Y, estimator=E(), **kw)
                rms = float(np.sqrt(np.mean(np.asarray(pw) ** 2)))
                if abs(gl - rms) > tol * max(1.0, abs(rms)):
                    viol.append(("global==RMS-of-pointwise(same index choice)", {"measure": meas, "global": float(gl), "rms": rms}))
                if np.any(np.asarray(pw) < 0):
                    viol.append(("pointwise>=0", None))
            elif mode == "train-bound":
                gl = gre(X, Y, estimator=E(), **kw)
                if gl > 1 + 1e-9:
                    viol.append(("training-set-GRE<=1", float(gl)))
            elif mode == "rotation":
                Q = np.array(linalg.frame(cfg["m"], cfg["Q"]), dtype=float)
                if not same(pgre(X, Y, estimator=E(), **kw), pgre(X @ Q, Y, estimator=E(), **kw)):
                    viol.append(("GRE-invariant-under-source-rotation", None))
                if not same(plre(X, Y, len(tr), estimator=E(), **kw), plre(X @ Q, Y, len(tr), estimator=E(), **kw)):
                    viol.append(("LRE-invariant-under-source-rotation", None))
            elif mode == "affine":
                k1, k2 = float(values.get("kx", 2.5)), float(values.get("ky", 0.4))
                tx = np.array([float(values.get(f"tx_{j}", 1.0 + j)) for j in range(cfg["m"])])
                ty = np.array([float(values.get(f"ty_{j}", -2.0 + j)) for j in range(cfg["p"])])
                if not same(pgre(X, Y, estimator=E(), **kw), pgre(X * k1 + tx, Y * k2 + ty, estimator=E(), **kw)):
                    viol.append(("GRE-invariant-under-rescaling-and-shift-of-either-space", None))
            elif mode == "lre==gre":
                if not same(pgre(X, Y, estimator=E(), **kw), plre(X, Y, len(tr), estimator=E(), **kw)):
                    viol.append(("LRE(all neighbours)==pointwise-GRE", None))
            elif mode == "grd-zero":
                pw = pgrd(X, Y, estimator=E(), **kw)
                if np.max(np.abs(pw)) > 1e-6:
                    viol.append(("GRD(X, XQ)==0", np.asarray(pw).tolist()))
            elif mode == "defined":
                for fn, nm in ((pgre, "GRE"), (pgrd, "GRD")):
                    try:
                        pw = fn(X, Y, estimator=E(), **kw)
                        if len(pw) != len(te):
                            viol.append((f"{nm}-defined-for-any-pair-of-feature-dimensions", "wrong length"))
                    except ValueError as e:
                        if "zero variance" in str(e):
                            raise
                        viol.append((f"{nm}-defined-for-any-pair-of-feature-dimensions", {"X": cfg["m"], "Y": cfg["p"], "error": repr(e)[:160]}))
        except ValueError as e:
            if "zero variance" not in str(e):
                raise
        return {"ok": True}, viol

    def fix_values(self, cfg, new, model):
        for k_ in list(new):
            if k_.startswith("s_") or k_ in ("kx", "ky"):
                new[k_] = abs(new[k_]) + 1
        return new

    def same_outcome(self, cfg, sym_out, real_out):
        return True

    def signature(self, cfg, clause, values, viol):
        names = sorted(set(v[0] for v in viol))
        return f"C13/{cfg['mode']}/X={cfg['m']}/Y={cfg['p']}/{'+'.join(names)[:200]}"


if __name__ == "__main__":
    sys.exit(runner.main(C13()))
