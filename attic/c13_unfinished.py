"""C13 - reconstruction measures vanish on contained information, isometry invariant (GRE / LRE clauses; closed-form estimator)."""
from __future__ import annotations

import os
import sys
from fractions import Fraction as Fr

sys.path.insert(0, os.path.dirname(os.path.dirname(os.path.abspath(__file__))))

import numpy as np

from symx import arrays, core, runner, linalg
from symx.arrays import is_sym, SymArray
from symx.core import Formula, f_and, f_or, TRUE, FALSE
from checks import sel_common as sc
from checks.c14 import fro2

F_ = sc._F


class LSEstimator:
    """user-supplied estimator (the API accepts any object with fit/predict): unregularised least squares without intercept,
    by the normal equations on symbolic data and numpy.linalg.lstsq on floats"""

    def fit(self, X, Y):
        if is_sym(X) or is_sym(Y):
            self.W = linalg.pinv(X) @ Y
        else:
            self.W = np.linalg.lstsq(X, Y, rcond=None)[0]
        return self

    def predict(self, X):
        return X @ self.W


class C13(runner.Check):
    pid = "C13"
    modules = ["skmatter.metrics._reconstruction_measures", "skmatter.preprocessing._data"]
    linalg_stubs = linalg.LINALG_STUBS
    engine_opts = dict(pool=56, max_paths=3000, feas_ms=1500, t3_ms=12000, t2_ms=12000, wall_s=1500)
    expected_events = ("singular", "sqrt-neg", "div0")
    bounds_text = ("GRE and LRE (pointwise and global) with the real StandardFlexibleScaler and a user-supplied least-squares estimator (closed form), X symbolic 4x2 / 3x2, "
                   "Y = X A with symbolic A or free symbolic Y (1-2 columns), explicit train/test index choices (disjoint, overlapping, identical), "
                   "source rotations from the rational library, n_local_points = number of training points.")
    stubs = ["np.linalg.pinv -> closed form (X_train of full column rank; rank-deficient training data ends the path)", "StandardFlexibleScaler runs unmodified (decided in C11)",
             "sklearn validators", "joblib Parallel(n_jobs=None) runs unmodified"]
    assumptions = ["exact real arithmetic", "the estimator is the user-supplied least-squares estimator, not the default Ridge2FoldCV", "training variance > atol (scaler accepts)"]
    outside = ["the default estimator Ridge2FoldCV inside the measures (fold SVDs of centred, scaled data: frames outside the library)", "GRD (needs OrthogonalRegression on scaled data)",
               "rescaling / shift invariance and target-space rotations (not built)", "LRE with fewer neighbours than training points"]

    def configs(self, tier):
        cf = []

        def add(mode, n=4, m=2, p=1, tr=None, te=None, cost=3, **kw):
            c = {"mode": mode, "n": n, "m": m, "p": p, "train": tr, "test": te, "_cost": cost}
            c.update(kw)
            cf.append(c)

        add("contained", tr=[0, 1, 2], te=[3, 1], p=2, cost=4)
        add("rms", tr=[0, 2, 3], te=[1, 3], cost=4)
        add("rms", tr=[0, 1, 2], te=[3], measure="lre", cost=6)
        add("train-bound", tr=[0, 1, 2, 3], te=[0, 1, 2, 3], cost=6)
        add("rotation", tr=[0, 1, 2], te=[3, 0], Q="R35", cost=5)
        add("lre==gre", tr=[0, 1, 2], te=[3, 2], cost=8)
        if tier == "thorough":
            add("contained", n=4, m=2, p=1, tr=[0, 1, 2, 3], te=[0, 3], cost=6)
            add("rotation", tr=[1, 2, 3], te=[0], Q="R513", cost=5)
            add("rotation", tr=[1, 2, 3], te=[0], Q="F35", cost=5)
            add("rms", tr=[0, 1, 3], te=[2, 0, 1], p=2, cost=8)
        return cf

    # ------------------------------------------------------------------
    def harness(self, c, cfg, P):
        from skmatter.metrics import (pointwise_global_reconstruction_error as pgre, global_reconstruction_error as gre,
                                      pointwise_local_reconstruction_error as plre, local_reconstruction_error as lre)

        n, m, p = cfg["n"], cfg["m"], cfg["p"]
        X = arrays.symbols("x", (n, m))
        tr, te = np.array(cfg["train"]), np.array(cfg["test"])
        mode = cfg["mode"]
        if mode == "contained":
            A = arrays.symbols("a", (m, p))
            Y = X @ A
        else:
            Y = arrays.symbols("y", (n, p))
        kw = dict(train_idx=tr, test_idx=te)
        if mode == "contained":
            pw = pgre(X, Y, estimator=LSEstimator(), **kw)
            P.require_all([F_(v == 0) for v in pw], "GRE(X, XA)==0")
            return {"ok": True}
        if mode == "rms":
            if cfg.get("measure") == "lre":
                nl = len(tr)
                pw = plre(X, Y, nl, estimator=LSEstimator(), **kw)
                gl = lre(X, Y, nl, estimator=LSEstimator(), **kw)
            else:
                pw = pgre(X, Y, estimator=LSEstimator(), **kw)
                gl = gre(X, Y, estimator=LSEstimator(), **kw)
            P.require_all([F_(v >= 0) for v in pw], "pointwise>=0")
            P.require(core.cross_eq(core.SReal.lift(gl) * core.SReal.lift(gl) * len(te), fro2(np.asarray(pw, dtype=object))), "global==RMS-of-pointwise(same index choice)")
            P.require(F_(core.SReal.lift(gl) >= 0), "global>=0")
            return {"ok": True}
        if mode == "train-bound":
            gl = core.SReal.lift(gre(X, Y, estimator=LSEstimator(), **kw))
            pw = pgre(X, Y, estimator=LSEstimator(), **kw)
            # certificate: after scaling the training targets have total variance 1, and least squares gives
            # |Y_s|^2 - |residual|^2 == |prediction|^2 >= 0 ; GRE^2 = |residual|^2 / n <= |Y_s|^2 / n = 1
            P.require(F_(gl * gl <= 1), "training-set-GRE<=1")
            return {"ok": True}
        if mode == "rotation":
            Q = arrays.exact(linalg.frame(m, cfg["Q"]))
            a = pgre(X, Y, estimator=LSEstimator(), **kw)
            b = pgre(X @ Q, Y, estimator=LSEstimator(), **kw)
            P.require_all([core.cross_eq(core.SReal.lift(u) * core.SReal.lift(u), core.SReal.lift(v) * core.SReal.lift(v)) for u, v in zip(a, b)], "GRE-invariant-under-source-rotation")
            return {"ok": True}
        if mode == "lre==gre":
            # all training points as neighbours and an order-independent estimator: LRE equals pointwise GRE when the local centring
            # is the training centring (the scaler centres the training set)
            a = pgre(X, Y, estimator=LSEstimator(), **kw)
            b = plre(X, Y, len(tr), estimator=LSEstimator(), **kw)
            P.require_all([core.cross_eq(core.SReal.lift(u) * core.SReal.lift(u), core.SReal.lift(v) * core.SReal.lift(v)) for u, v in zip(a, b)], "LRE(all neighbours)==pointwise-GRE")
            return {"ok": True}
        return {"ok": True}

    # ------------------------------------------------------------------ float replay
    def concrete(self, cfg, values):
        from skmatter.metrics import (pointwise_global_reconstruction_error as pgre, global_reconstruction_error as gre,
                                      pointwise_local_reconstruction_error as plre, local_reconstruction_error as lre)

        n, m, p = cfg["n"], cfg["m"], cfg["p"]
        rng = np.random.RandomState(9)
        X = np.array([[float(values.get(f"x_{i}_{j}", rng.randn())) for j in range(m)] for i in range(n)])
        tr, te = np.array(cfg["train"]), np.array(cfg["test"])
        mode = cfg["mode"]
        if mode == "contained":
            A = np.array([[float(values.get(f"a_{i}_{j}", rng.randn())) for j in range(p)] for i in range(m)])
            Y = X @ A
        else:
            Y = np.array([[float(values.get(f"y_{i}_{j}", rng.randn())) for j in range(p)] for i in range(n)])
        kw = dict(train_idx=tr, test_idx=te)
        viol = []
        try:
            if mode == "contained":
                pw = pgre(X, Y, estimator=LSEstimator(), **kw)
                if np.max(np.abs(pw)) > 1e-7:
                    viol.append(("GRE(X, XA)==0", pw.tolist()))
            elif mode == "rms":
                if cfg.get("measure") == "lre":
                    pw, gl = plre(X, Y, len(tr), estimator=LSEstimator(), **kw), lre(X, Y, len(tr), estimator=LSEstimator(), **kw)
                else:
                    pw, gl = pgre(X, Y, estimator=LSEstimator(), **kw), gre(X, Y, estimator=LSEstimator(), **kw)
                if abs(gl - np.sqrt(np.mean(np.asarray(pw) ** 2))) > 1e-7 * max(1.0, abs(gl)):
                    viol.append(("global==RMS-of-pointwise(same index choice)", {"global": float(gl), "rms": float(np.sqrt(np.mean(np.asarray(pw) ** 2)))}))
                if np.any(np.asarray(pw) < 0):
                    viol.append(("pointwise>=0", None))
            elif mode == "train-bound":
                gl = gre(X, Y, estimator=LSEstimator(), **kw)
                if gl > 1 + 1e-9:
                    viol.append(("training-set-GRE<=1", float(gl)))
            elif mode == "rotation":
                Q = np.array(linalg.frame(m, cfg["Q"]), dtype=float)
                a, b = pgre(X, Y, estimator=LSEstimator(), **kw), pgre(X @ Q, Y, estimator=LSEstimator(), **kw)
                if not np.allclose(a, b, atol=1e-7 * max(1.0, np.abs(a).max())):
                    viol.append(("GRE-invariant-under-source-rotation", None))
            elif mode == "lre==gre":
                a, b = pgre(X, Y, estimator=LSEstimator(), **kw), plre(X, Y, len(tr), estimator=LSEstimator(), **kw)
                if not np.allclose(a, b, atol=1e-7 * max(1.0, np.abs(a).max())):
                    viol.append(("LRE(all neighbours)==pointwise-GRE", [np.asarray(a).tolist(), np.asarray(b).tolist()]))
        except ValueError as e:
            if "variance" not in str(e):
                raise
        return {"ok": True}, viol

    def same_outcome(self, cfg, sym_out, real_out):
        return True

    def signature(self, cfg, clause, values, viol):
        names = sorted(set(v[0] for v in viol))
        return f"C13/{cfg['mode']}/{'+'.join(names)[:200]}"


if __name__ == "__main__":
    sys.exit(runner.main(C13()))
