#!/bin/sh
# Build the overlay venv used by every check: /venv (numpy 2.2.6, scipy, sklearn,
# skmatter editable -> /repo/src) + z3-solver, cvc5, sympy, mpmath from the offline
# wheelhouse. Idempotent. Lives under /verif/.venv (git-ignored).
set -e
V=/verif/.venv
if [ -x "$V/bin/python" ] && "$V/bin/python" -c "import z3, sympy, numpy, sklearn, skmatter, jsonschema" 2>/dev/null; then
  exit 0
fi
rm -rf "$V"
/venv/bin/python -m venv "$V"
echo "import site; site.addsitedir('/venv/lib/python3.12/site-packages')" > "$V/lib/python3.12/site-packages/base.pth"
PIP_NO_INDEX=1 "$V/bin/pip" install -q --no-index --find-links /opt/veriftools/wheels --no-deps \
  z3-solver cvc5 sympy mpmath jsonschema jsonschema_specifications referencing rpds_py attrs typing_extensions >/dev/null
"$V/bin/python" -c "import z3, sympy, numpy, sklearn, skmatter, jsonschema; assert numpy.__version__=='2.2.6', numpy.__version__"
